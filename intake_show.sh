#!/bin/sh
# ./intake_show.sh <PROP> <dir> <name> [checks]
c=${4:-$1}
./seed_intake.py $1 $2 --name $3 --checks $c 2>&1 | python3 -c "
import json,sys
d=json.load(sys.stdin); print(d['name'],'confirmed=',d.get('confirmed'),'tests:',d.get('tests_with_patch'),'demo:',d['demo_without_patch']['rc'],d.get('demo_with_patch',{}).get('rc'),'checks:',{k:(v['verdict'],v['mechanisms'][:1]) for k,v in d.get('checks',{}).items()})"
