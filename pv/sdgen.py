"""Generators for SD options / entries / messages, as neutral specs that can be turned
into library objects (to_lib) and into reference wire form (to_ref)."""
from __future__ import annotations

import ipaddress

from pv import gen, refwire

IP4_TYPES = (0x04, 0x14, 0x24)
IP6_TYPES = (0x06, 0x16, 0x26)
UNKNOWN_TYPES = tuple(t for t in range(256) if t not in refwire.KNOWN_OPTION_TYPES)
KEYCHARS = "abcdefghijklmnopqrstuvwxyzABCXYZ0123456789_-. /:;,!?*+<>[]{}|~^%$#@&()'\""
VALCHARS = KEYCHARS + "==="


A4 = (bytes((10, 0, 0, 1)), bytes((239, 1, 2, 3)))
A6 = (bytes(15) + b"\x01", bytes.fromhex("ff0e0000000000000000000000000101"),
      bytes(10) + b"\xff\xff" + bytes((10, 0, 0, 1)))  # the last one is A4[0] written as an IPv4-mapped IPv6 address


def special_ip4(rng):
    return rng.choice((bytes(4), b"\xff" * 4, bytes((127, 0, 0, 1)), bytes((224, 0, 0, rng.randrange(256))),
                       bytes((169, 254, rng.randrange(256), rng.randrange(256))), bytes((192, 0, 2, rng.randrange(256)))))


def special_ip6(rng):
    """addresses of the ranges the address library treats specially: unspecified, loopback, IPv4-mapped, IPv4-compatible,
    NAT64, 6to4, Teredo, link-local, unique-local, multicast, all ones"""
    v4 = rng.choice((bytes((10, 0, 0, 1)), gen.rbytes(rng, 4), special_ip4(rng)))
    return rng.choice((
        bytes(16), bytes(15) + b"\x01", bytes(10) + b"\xff\xff" + v4, bytes(10) + b"\xff\xff" + v4, bytes(12) + v4,
        bytes.fromhex("0064ff9b") + bytes(8) + v4, b"\x20\x02" + v4 + gen.rbytes(rng, 10), bytes.fromhex("20010000") + gen.rbytes(rng, 12),
        b"\xfe\x80" + bytes(6) + gen.rbytes(rng, 8), b"\xfd" + gen.rbytes(rng, 15), b"\xff\x02" + bytes(13) + bytes((rng.randrange(256),)),
        b"\xff" * 16, bytes(8) + b"\xff\xff" + gen.rbytes(rng, 6)))


def gen_sibling(rng):
    """options from tiny pools: two options that agree in every field but one (the type, a single value, the presence
    of '=') are frequent, inside one message and across the messages one process handles"""
    r = rng.random()
    if r < 0.35:
        return ("ip4", rng.choice(IP4_TYPES), rng.choice(A4), rng.choice((6, 17)), rng.choice((30490, 30500)))
    if r < 0.6:
        return ("ip6", rng.choice(IP6_TYPES), rng.choice(A6), rng.choice((6, 17)), rng.choice((30490, 30500)))
    if r < 0.7:
        return ("lb", rng.choice((0, 1)), rng.choice((0, 1)))
    if r < 0.9:
        items = tuple(rng.choice((("a", None), ("a", ""), ("a", "1"), ("b", "1"), ("a", "=1"), ("ab", None), ("A", "1"), ("a", "I"), ("a", "i")))
                      for _ in range(rng.choice((1, 1, 2))))
        return ("cfg", items)
    # an unknown type carrying exactly the body of an endpoint option
    body = bytes(1) + rng.choice(A4) + bytes(1) + bytes((rng.choice((6, 17)),)) + rng.choice((30490, 30500)).to_bytes(2, "big")
    return ("unk", rng.choice(UNKNOWN_TYPES[:3]), body[1:] if rng.random() < 0.5 else body)


def gen_option(rng, uniq=None):
    if rng.random() < 0.3:
        return gen_sibling(rng)
    r = rng.random()
    if r < 0.22:
        proto = rng.choice((6, 17, 17, 0, 1, 255, rng.randrange(256)))
        port, _ = gen.u16(rng)
        return ("ip4", rng.choice(IP4_TYPES), special_ip4(rng) if rng.random() < 0.25 else gen.rbytes(rng, 4), proto, port)
    if r < 0.40:
        proto = rng.choice((6, 17, 17, 0, 1, 255, rng.randrange(256)))
        port, _ = gen.u16(rng)
        return ("ip6", rng.choice(IP6_TYPES), special_ip6(rng) if rng.random() < 0.4 else gen.rbytes(rng, 16), proto, port)
    if r < 0.52:
        return ("lb", gen.u16(rng)[0], gen.u16(rng)[0])
    if r < 0.80:
        items = []
        for _ in range(rng.choice((0, 1, 1, 2, 3, 6))):
            klen = rng.choice((1, 1, 2, 5, 12))
            key = "".join(rng.choice(KEYCHARS) for _ in range(klen))
            rr = rng.random()
            if rr < 0.3:
                val = None
                if rng.random() < 0.08:
                    key = "".join(rng.choice(KEYCHARS) for _ in range(255))  # exactly 255 bytes
            elif rr < 0.4:
                val = ""
            else:
                vlen = rng.choice((1, 2, 3, 8, 30))
                val = "".join(rng.choice(VALCHARS) for _ in range(vlen))
                if rng.random() < 0.06:
                    val = "".join(rng.choice(VALCHARS) for _ in range(255 - len(key) - 1))  # 255 total
            items.append((key, val))
        return ("cfg", tuple(items))
    typ = rng.choice(UNKNOWN_TYPES)
    n = rng.choice((0, 1, 1, 2, 5, 9, 21, 40))
    return ("unk", typ, gen.rbytes(rng, n))


def to_lib(H, spec):
    k = spec[0]
    if k == "ip4":
        cls = {0x04: H.IPv4EndpointOption, 0x14: H.IPv4MulticastOption, 0x24: H.IPv4SDEndpointOption}[spec[1]]
        proto = spec[3]
        if proto in (6, 17) and spec[4] % 2 == 0:
            proto = H.L4Protocols(proto)  # both spellings of a known protocol
        return cls(address=ipaddress.IPv4Address(spec[2]), l4proto=proto, port=spec[4])
    if k == "ip6":
        cls = {0x06: H.IPv6EndpointOption, 0x16: H.IPv6MulticastOption, 0x26: H.IPv6SDEndpointOption}[spec[1]]
        proto = spec[3]
        if proto in (6, 17) and spec[4] % 2 == 0:
            proto = H.L4Protocols(proto)
        return cls(address=ipaddress.IPv6Address(spec[2]), l4proto=proto, port=spec[4])
    if k == "lb":
        return H.SOMEIPSDLoadBalancingOption(priority=spec[1], weight=spec[2])
    if k == "cfg":
        return H.SOMEIPSDConfigOption(configs=tuple(spec[1]))
    return H.SOMEIPSDUnknownOption(type=spec[1], payload=spec[2])


def to_ref(spec):
    k = spec[0]
    if k == "ip4":
        return refwire.opt_ipv4(spec[1], spec[2], spec[3], spec[4])
    if k == "ip6":
        return refwire.opt_ipv6(spec[1], spec[2], spec[3], spec[4])
    if k == "lb":
        return refwire.opt_loadbal(spec[1], spec[2])
    if k == "cfg":
        items = [(kk if v is None else kk + "=" + v).encode("ascii") for kk, v in spec[1]]
        return refwire.opt_config(items)
    return (spec[1], bytes(spec[2]))


def option_ok(spec):
    """fits the wire format?"""
    if spec[0] == "cfg":
        return all(0 < len(k if v is None else k + "=" + v) <= 255 for k, v in spec[1])
    return True


def gen_entry_fields(rng):
    typ = rng.choice((0, 1, 6, 7))
    sid, c1 = gen.u16(rng)
    iid, c2 = gen.u16(rng)
    maj, c3 = gen.u8(rng)
    ttl, c4 = gen.u24(rng)
    if typ in (0, 1):
        val, c5 = gen.u32(rng)
    else:
        eg, c5 = gen.u16(rng)
        counter = rng.choice((0, 0, 1, 7, 15))
        val = (counter << 16) | eg
        c5 = (c5, counter)
    return dict(type=typ, sid=sid, iid=iid, maj=maj, ttl=ttl, val=val), (typ, c1, c2, c3, c4, c5)


def lib_entry(H, f, o1, o2):
    return H.SOMEIPSDEntry(
        sd_type=H.SOMEIPSDEntryType(f["type"]), service_id=f["sid"], instance_id=f["iid"],
        major_version=f["maj"], ttl=f["ttl"], minver_or_counter=f["val"],
        options_1=tuple(o1), options_2=tuple(o2),
    )
