"""Independent reference codec for SOME/IP and SOME/IP-SD, written from the wire layout.

Shares no code with someip.header.  Values are plain tuples / dicts:

  SOME/IP message : dict(sid, mid, cid, sess, pv, iv, mt, rc, payload)
  SD message      : dict(flags, entries=[entry...], options=[(type, body)...])
                    body = the bytes after the type byte (reserved byte + data)
  SD entry        : dict(type, i1, i2, n1, n2, sid, iid, maj, ttl, val)

``classify_*`` predict what the library's decoder does with a byte string:
  ("ok", consumed_len) | ("parse",) | ("unicode",)
mirroring its documented leniencies (see DESIGN.md 2.3).
"""
from __future__ import annotations

MSG_TYPES = (0x00, 0x01, 0x02, 0x40, 0x41, 0x42, 0x80, 0x81, 0xC0, 0xC1)
RET_CODES = tuple(range(0, 11))
ENTRY_TYPES = (0, 1, 6, 7)
KNOWN_OPTION_TYPES = (0x01, 0x02, 0x04, 0x06, 0x14, 0x16, 0x24, 0x26)

SD_SERVICE = 0xFFFF
SD_METHOD = 0x8100


class RefError(Exception):
    pass


def be(v, n):
    if v < 0 or v >> (8 * n):
        raise RefError(f"value {v} does not fit {n} bytes")
    return v.to_bytes(n, "big")


def u(b):
    return int.from_bytes(b, "big")


# ------------------------------------------------------------------ SOME/IP
def encode_someip(m) -> bytes:
    p = m["payload"]
    return (
        be(m["sid"], 2)
        + be(m["mid"], 2)
        + be(len(p) + 8, 4)
        + be(m["cid"], 2)
        + be(m["sess"], 2)
        + be(m.get("pv", 1), 1)
        + be(m["iv"], 1)
        + be(m["mt"], 1)
        + be(m["rc"], 1)
        + bytes(p)
    )


def classify_someip(b: bytes):
    if len(b) < 16:
        return ("parse",)
    if b[12] != 1:
        return ("parse",)
    if b[14] not in MSG_TYPES:
        return ("parse",)
    if b[15] not in RET_CODES:
        return ("parse",)
    size = u(b[4:8])
    if size < 8:
        return ("parse",)
    if len(b) - 16 < size - 8:
        return ("parse",)
    return ("ok", 8 + size)


def decode_someip(b: bytes):
    c = classify_someip(b)
    if c[0] != "ok":
        raise RefError("not a SOME/IP message")
    n = c[1]
    return (
        dict(
            sid=u(b[0:2]),
            mid=u(b[2:4]),
            cid=u(b[8:10]),
            sess=u(b[10:12]),
            pv=b[12],
            iv=b[13],
            mt=b[14],
            rc=b[15],
            payload=bytes(b[16:n]),
        ),
        bytes(b[n:]),
    )


def split_datagram(b: bytes):
    """messages of a datagram as the receive loop sees them: list, error?"""
    out = []
    while b:
        c = classify_someip(b)
        if c[0] != "ok":
            return out, True
        m, b = decode_someip(b)
        out.append(m)
    return out, False


# ------------------------------------------------------------------ SD options
def encode_option(typ: int, body: bytes) -> bytes:
    return be(len(body), 2) + be(typ, 1) + bytes(body)


def opt_ipv4(typ, addr4: bytes, proto: int, port: int, r1=0, r2=0):
    return (typ, be(r1, 1) + bytes(addr4) + be(r2, 1) + be(proto, 1) + be(port, 2))


def opt_ipv6(typ, addr16: bytes, proto: int, port: int, r1=0, r2=0):
    return (typ, be(r1, 1) + bytes(addr16) + be(r2, 1) + be(proto, 1) + be(port, 2))


def opt_loadbal(prio, weight, r=0):
    return (0x02, be(r, 1) + be(prio, 2) + be(weight, 2))


def opt_config(items, r=0, trailer=b""):
    """items: list of bytes strings (already 'key' or 'key=value')"""
    body = bytearray([r])
    for it in items:
        if not 0 < len(it) <= 255:
            raise RefError("config string length")
        body.append(len(it))
        body += it
    body.append(0)
    body += trailer
    return (0x01, bytes(body))


def classify_option_body(typ: int, body: bytes):
    """'ok' | 'parse' | 'unicode' for one option's body (after the type byte)"""
    if typ == 0x02:
        return "ok" if len(body) == 5 else "parse"
    if typ in (0x04, 0x14, 0x24):
        return "ok" if len(body) == 9 else "parse"
    if typ in (0x06, 0x16, 0x26):
        return "ok" if len(body) == 21 else "parse"
    if typ == 0x01:
        if len(body) < 2:
            return "parse"
        b = body[1:]
        nextlen, b = b[0], b[1:]
        while nextlen != 0:
            if len(b) < nextlen + 1:
                return "parse"
            s, b = b[:nextlen], b[nextlen:]
            if any(c >= 0x80 for c in s):
                return "unicode"
            nextlen, b = b[0], b[1:]
        return "ok"
    return "ok"


def config_items(body: bytes):
    """the strings of a structurally valid config option body"""
    out = []
    b = body[1:]
    nextlen, b = b[0], b[1:]
    while nextlen != 0:
        s, b = b[:nextlen], b[nextlen:]
        out.append(bytes(s))
        nextlen, b = b[0], b[1:]
    return out


def classify_option(b: bytes):
    """one option at the start of b: ('ok', consumed, typ, body) | ('parse',) | ('unicode',)"""
    if len(b) < 3:
        return ("parse",)
    ln = u(b[0:2])
    typ = b[2]
    if len(b) - 3 < ln:
        return ("parse",)
    body = bytes(b[3 : 3 + ln])
    c = classify_option_body(typ, body)
    if c != "ok":
        return (c,)
    return ("ok", 3 + ln, typ, body)


# ------------------------------------------------------------------ SD entries
def encode_entry(e) -> bytes:
    if e["n1"] > 15 or e["n2"] > 15 or e["n1"] < 0 or e["n2"] < 0:
        raise RefError("run length does not fit 4 bits")
    return (
        be(e["type"], 1)
        + be(e["i1"], 1)
        + be(e["i2"], 1)
        + be((e["n1"] << 4) | e["n2"], 1)
        + be(e["sid"], 2)
        + be(e["iid"], 2)
        + be(e["maj"], 1)
        + be(e["ttl"], 3)
        + be(e["val"], 4)
    )


def classify_entry(b: bytes, num_options: int):
    if len(b) < 16:
        return ("parse",)
    if b[0] not in ENTRY_TYPES:
        return ("parse",)
    n1, n2 = b[3] >> 4, b[3] & 15
    if b[1] + n1 > num_options or b[2] + n2 > num_options:
        return ("parse",)
    if b[0] in (6, 7) and u(b[12:16]) & 0xFFF00000:
        return ("parse",)
    return ("ok", 16)


def decode_entry(b: bytes):
    return dict(
        type=b[0],
        i1=b[1],
        i2=b[2],
        n1=b[3] >> 4,
        n2=b[3] & 15,
        sid=u(b[4:6]),
        iid=u(b[6:8]),
        maj=b[8],
        ttl=u(b[9:12]),
        val=u(b[12:16]),
    )


# ------------------------------------------------------------------ SD message
def encode_sd(flags: int, entries, options, reserved=b"\0\0\0") -> bytes:
    eb = b"".join(encode_entry(e) for e in entries)
    ob = b"".join(encode_option(t, body) for t, body in options)
    return be(flags, 1) + bytes(reserved) + be(len(eb), 4) + eb + be(len(ob), 4) + ob


def classify_sd(b: bytes):
    """('ok', consumed) | ('parse',) | ('unicode',) for an SD payload"""
    if len(b) < 12:
        return ("parse",)
    el = u(b[4:8])
    rest = b[8:]
    if len(rest) < el + 4:
        return ("parse",)
    eb, rest = rest[:el], rest[el:]
    ol = u(rest[:4])
    rest = rest[4:]
    if len(rest) < ol:
        return ("parse",)
    ob = rest[:ol]
    nopt = 0
    while ob:
        c = classify_option(ob)
        if c[0] != "ok":
            return (c[0],)
        ob = ob[c[1] :]
        nopt += 1
    while eb:
        c = classify_entry(eb, nopt)
        if c[0] != "ok":
            return ("parse",)
        eb = eb[16:]
    return ("ok", 8 + el + 4 + ol)


def decode_sd(b: bytes):
    """decode a structurally acceptable SD payload (config text is kept as bytes, so a
    payload the library rejects with a unicode error still decodes here)"""
    if len(b) < 12:
        raise RefError("short SD")
    el = u(b[4:8])
    rest = b[8:]
    if len(rest) < el + 4:
        raise RefError("entries length")
    eb, rest = rest[:el], rest[el:]
    ol = u(rest[:4])
    rest = rest[4:]
    if len(rest) < ol:
        raise RefError("options length")
    ob, rest = rest[:ol], rest[ol:]
    options = []
    while ob:
        if len(ob) < 3:
            raise RefError("option header")
        ln = u(ob[0:2])
        if len(ob) - 3 < ln:
            raise RefError("option length")
        options.append((ob[2], bytes(ob[3 : 3 + ln])))
        ob = ob[3 + ln :]
    entries = []
    if len(eb) % 16:
        raise RefError("entries not a multiple of 16")
    for i in range(0, len(eb), 16):
        e = decode_entry(eb[i : i + 16])
        if e["i1"] + e["n1"] > len(options) or e["i2"] + e["n2"] > len(options):
            raise RefError("option run out of range")
        entries.append(e)
    return dict(flags=b[0], reserved=bytes(b[1:4]), entries=entries, options=options), bytes(rest)


def entry_runs(sd, e):
    """the two option runs of entry e, as lists of (type, body)"""
    o = sd["options"]
    return o[e["i1"] : e["i1"] + e["n1"]], o[e["i2"] : e["i2"] + e["n2"]]


def sd_datagram(flags, entries, options, session_id, **hdr) -> bytes:
    """a complete SD datagram (SOME/IP header + SD payload)"""
    m = dict(
        sid=SD_SERVICE, mid=SD_METHOD, cid=0, sess=session_id, pv=1, iv=1, mt=2, rc=0,
        payload=encode_sd(flags, entries, options),
    )
    m.update(hdr)
    return encode_someip(m)


def parse_sd_datagram(b: bytes):
    """-> list of (session_id, sd dict) for every SD message in the datagram; raises
    RefError when the datagram is not made of well-formed SD messages"""
    out = []
    while b:
        m, b = decode_someip(b)
        if (m["sid"], m["mid"], m["iv"], m["mt"], m["rc"]) != (SD_SERVICE, SD_METHOD, 1, 2, 0):
            raise RefError(f"not an SD message: {m}")
        sd, rest = decode_sd(m["payload"])
        if rest:
            raise RefError("trailing bytes after SD payload")
        sd["sess"] = m["sess"]
        sd["cid"] = m["cid"]
        out.append(sd)
    return out


def ep4(ip: str, port: int, proto=17, typ=0x04):
    return opt_ipv4(typ, bytes(int(x) for x in ip.split(".")), proto, port)


def ep6(ip: str, port: int, proto=17, typ=0x06):
    import ipaddress

    return opt_ipv6(typ, ipaddress.IPv6Address(ip).packed, proto, port)
