"""C20 - decoding canonicalises: decode-encode-decode equals decode."""
from __future__ import annotations

import random

from pv import corpus, gen, refwire, sdgen

ID = "C20"
LEVEL = "exploration"
TECHNIQUE = "runtime fixpoint oracle parse(build(parse(b))) == parse(b) on accepted mutated / non-canonical inputs, cross-read by the independent decoder"
LEVEL_TEXT = ("Held on every accepted input of the run: legal non-canonical layouts emitted by the independent encoder (non-zero "
              "reserved bytes, garbage after config terminators, unknown option types / flag bits / protocol numbers, "
              "unreferenced and duplicate options, index fields with zero counts, overlapping runs) and the accepted part of "
              "the structured-mutation corpus; sampled inputs")
LEVEL_NOTE = "trusts pv/refwire.py for the independent reading of both byte strings; equality of decoded values is the library's own dataclass equality"
RULE = (
    "inputs = reference-encoded SD payloads / SOME/IP messages / single entries / single options (canonical and non-canonical) "
    "and their mutations (bit flips, byte replacement, truncation, insertion, deletion, region duplication, every length / "
    "count / index field set to 0, 1, true-1, true+1, max, option payload corruption); only inputs the decoder accepts are "
    "judged. distinct = distinct (decoder, input hash); non-trivial = re-encoded bytes differ from the consumed input, or "
    "the input contains a kept-but-unknown element (unknown option type, unknown flag bit, unknown protocol number, "
    "unreferenced option, non-zero index with zero count)"
)
ASSUMPTIONS = ["reference decoder canonicalisation rules: reserved bytes zeroed, bytes after a config terminator dropped"]
FLOORS = {"quick": {"accepted_sd": 10000, "accepted_someip": 5000, "accepted_entry": 3000, "accepted_option": 5000,
                    "sd_resolved_cycles": 10000, "sd_forward_cycles": 5000, "noncanonical_inputs": 5000, "kept_unknown_elements": 3000,
                    "independent_cross_reads": 10000,
                    "mesh_scenarios": 100, "mesh_wire_roundtrips": 4800}}
# system-level shards: the mesh workload of pv/mesh.py under this property's boundary monitors (reports of other monitors are dropped)
MESH = {"want": ("wire",), "claim": ("mesh:own-transmission-does-not-survive",),
        "quick": (2, 60), "thorough": (16, 1500)}


def canon_option(t, body):
    """what a canonicalising codec must preserve of an option, as canonical (type, body)"""
    if t in (0x04, 0x14, 0x24):
        return (t, b"\0" + body[1:5] + b"\0" + body[6:9])
    if t in (0x06, 0x16, 0x26):
        return (t, b"\0" + body[1:17] + b"\0" + body[18:21])
    if t == 0x02:
        return (t, b"\0" + body[1:5])
    if t == 0x01:
        return refwire.opt_config(refwire.config_items(body))
    return (t, bytes(body))


_SEEN = [0]


def check_sd(H, b, ctx, replay):
    try:
        v, rest = H.SOMEIPSDHeader.parse(b)
    except (H.ParseError, UnicodeDecodeError):
        return False
    ctx.count("accepted_sd")
    _SEEN[0] += 1
    if _SEEN[0] % 2:
        # a monitor looks at what it decoded before doing anything else with it: the public convenience attributes of the
        # entries (reading changes nothing)
        for e in v.entries:
            e.options
            e.options_resolved
        ctx.count("decoded_entries_inspected_before_any_cycle")
    consumed = b[: len(b) - len(rest)]
    problems = []
    try:
        b2 = bytes(v.build())
    except Exception as exc:
        ctx.violation("decoded-sd-message-cannot-be-encoded-again", dict(exc=repr(exc), input=b[:200]), replay)
        return True
    try:
        v2, rest2 = H.SOMEIPSDHeader.parse(b2)
        if v2 != v or rest2:
            problems.append("decode(encode(decode(b))) != decode(b)")
    except Exception as exc:
        problems.append(f"re-encoded bytes do not decode: {exc!r}")
    # the encoder's output handed to the decoder as it is (whatever buffer type build() returns), and the value decoded
    # from it encoded twice: encoding must not change the value it encodes
    try:
        raw = v.build()
        w, wrest = H.SOMEIPSDHeader.parse(raw)
        e1 = bytes(w.build())
        e2 = bytes(w.build())
        ctx.count("sd_repeated_encodes")
        if e1 != b2 or e2 != b2 or wrest:
            problems.append("encoding the value decoded from the encoder's own buffer is not repeatable")
        elif H.SOMEIPSDHeader.parse(e2)[0] != v:
            problems.append("value decoded from the encoder's own buffer differs after being encoded")
    except Exception as exc:
        problems.append(f"encoder's own buffer does not decode / re-encode: {exc!r}")
    # the resolved cycle
    try:
        r1 = v.resolve_options()
        a = r1.assign_option_indexes()
        b3 = bytes(a.build())
        v3, rest3 = H.SOMEIPSDHeader.parse(b3)
        r3 = v3.resolve_options()
        ctx.count("sd_resolved_cycles")
        if r3.entries != r1.entries or rest3:
            problems.append("resolve->assign->build->parse->resolve changes the entries' options")
        if v3.options != v.options:
            problems.append("resolved cycle does not keep the option array")
        if (r3.flag_reboot, r3.flag_unicast, r3.flags_unknown) != (v.flag_reboot, v.flag_unicast, v.flags_unknown):
            problems.append("resolved cycle changes flags")
    except Exception as exc:
        problems.append(f"resolved cycle raised {exc!r}")
    # the forwarding cycle: the decoded, resolved entries are put into a fresh message (what send_sd does with the entries an
    # application hands back to it) - decoding that one gives the same entries with the same runs
    try:
        r1 = v.resolve_options()
        fresh = H.SOMEIPSDHeader(entries=r1.entries, flag_reboot=v.flag_reboot, flag_unicast=v.flag_unicast,
                                 flags_unknown=v.flags_unknown)
        try:
            b4 = bytes(fresh.assign_option_indexes().build())
        except Exception:  # noqa: B902  (without the carried-over array the entries may need more than the format can hold)
            b4 = None
            ctx.count("sd_forward_cycles_not_representable")
        if b4 is not None:
            r4 = H.SOMEIPSDHeader.parse(b4)[0].resolve_options()
            ctx.count("sd_forward_cycles")
            if r4.entries != r1.entries:
                problems.append("resolved entries put into a fresh message decode to other entries / option runs")
    except Exception as exc:
        problems.append(f"forward cycle raised {exc!r}")
    # the relay's cycle: the decoded header is sent on through the same assign + build helper every outgoing message goes through,
    # without resolving it first - for entries that already carry their indexes the assignment is a no-op
    try:
        ctx.count("sd_relay_cycles")
        if bytes(v.assign_option_indexes().build()) != b2:
            problems.append("assigning option indexes on the decoded (index-carrying) header changes what it encodes to")
    except Exception as exc:
        problems.append(f"relay cycle raised {exc!r}")
    # independent reading: kept information survives unchanged
    nontrivial = b2 != consumed
    try:
        ra, _ = refwire.decode_sd(consumed)
        rb, rrest = refwire.decode_sd(b2)
        ctx.count("independent_cross_reads")
        if ra["flags"] != rb["flags"]:
            problems.append(f"flags byte {ra['flags']:#x} became {rb['flags']:#x}")
        if ra["entries"] != rb["entries"]:
            problems.append("raw entries (types, indexes, counts, ids, ttl, value) changed")
        if [canon_option(t, x) for t, x in ra["options"]] != rb["options"]:
            problems.append("option array changed beyond canonicalisation")
        if rrest:
            problems.append("re-encoded message has trailing bytes")
        referenced = set()
        for e in ra["entries"]:
            referenced.update(range(e["i1"], e["i1"] + e["n1"]))
            referenced.update(range(e["i2"], e["i2"] + e["n2"]))
            if (e["n1"] == 0 and e["i1"]) or (e["n2"] == 0 and e["i2"]):
                ctx.count("kept_unknown_elements")
                nontrivial = True
        if ra["flags"] & 0x3F:
            ctx.count("kept_unknown_elements")
            nontrivial = True
        for i, (t, x) in enumerate(ra["options"]):
            if t not in refwire.KNOWN_OPTION_TYPES or i not in referenced or (
                    t in (0x04, 0x14, 0x24) and x[6] not in (6, 17)) or (t in (0x06, 0x16, 0x26) and x[18] not in (6, 17)):
                ctx.count("kept_unknown_elements")
                nontrivial = True
                break
    except refwire.RefError as exc:
        problems.append(f"independent decoder rejects accepted input or output: {exc!r}")
    if b2 != consumed:
        ctx.count("noncanonical_inputs")
    if problems:
        ctx.violation("sd-decode-encode-decode-not-stable", dict(problems=problems[:4], input=b[:300]), replay)
    return nontrivial


_N = [0]


def check_someip(H, b, ctx, replay):
    # the bytes reach the decoder the way a socket layer hands them over: as bytes, or - every third time - in a reusable
    # receive buffer (bytearray) or as a window into one (memoryview)
    _N[0] += 1
    given = b
    if _N[0] % 3 == 0:
        given = bytearray(b) if _N[0] % 2 else memoryview(bytearray(b))
        ctx.count("someip_inputs_given_as_a_mutable_buffer")
    try:
        v, rest = H.SOMEIPHeader.parse(given)
    except H.ParseError:
        return False
    rest = bytes(rest)
    ctx.count("accepted_someip")
    consumed = b[: len(b) - len(rest)]
    try:
        b2 = bytes(v.build())
        v2, rest2 = H.SOMEIPHeader.parse(b2)
    except Exception as exc:
        ctx.violation("decoded-someip-message-cannot-be-encoded-again", dict(exc=repr(exc), input=b[:64]), replay)
        return True
    if b2 != consumed or v2 != v or rest2:
        ctx.violation("someip-reencoding-differs-from-consumed-input",
                      dict(consumed=consumed[:64], reencoded=b2[:64]), replay)
    return bool(rest) or len(consumed) > 16


def check_entry(H, b, nopt, ctx, replay):
    try:
        v, rest = H.SOMEIPSDEntry.parse(b, nopt)
    except H.ParseError:
        return False
    ctx.count("accepted_entry")
    try:
        b2 = bytes(v.build())
        v2, rest2 = H.SOMEIPSDEntry.parse(b2, nopt)
    except Exception as exc:
        ctx.violation("decoded-entry-cannot-be-encoded-again", dict(exc=repr(exc), input=b[:32]), replay)
        return True
    if v2 != v or rest2 or b2 != b[:16]:
        ctx.violation("entry-decode-encode-decode-not-stable", dict(input=b[:16], reencoded=b2), replay)
    if (v.num_options_1 == 0 and v.option_index_1) or (v.num_options_2 == 0 and v.option_index_2):
        ctx.count("kept_unknown_elements")
    return True


def check_option(H, b, ctx, replay):
    try:
        v, rest = H.SOMEIPSDOption.parse(b)
    except (H.ParseError, UnicodeDecodeError):
        return False
    ctx.count("accepted_option")
    consumed = b[: len(b) - len(rest)]
    try:
        b2 = bytes(v.build())
        v2, rest2 = H.SOMEIPSDOption.parse(b2)
    except Exception as exc:
        ctx.violation("decoded-option-cannot-be-encoded-again", dict(exc=repr(exc), input=b[:64], value=repr(v)[:200]), replay)
        return True
    t, body = consumed[2], consumed[3:]
    exp = refwire.encode_option(*canon_option(t, body))
    if v2 != v or rest2 or b2 != exp:
        ctx.violation("option-decode-encode-decode-not-stable",
                      dict(input=consumed[:64], reencoded=b2[:64], expected=exp[:64]), replay)
    if t not in refwire.KNOWN_OPTION_TYPES:
        ctx.count("kept_unknown_elements")
    if b2 != consumed:
        ctx.count("noncanonical_inputs")
    return b2 != consumed or t not in refwire.KNOWN_OPTION_TYPES


def one_case(H, rng, ctx, replay):
    r = rng.random()
    if r < 0.55:
        lay, info = corpus.gen_sd_payload(rng, canonical=rng.random() < 0.15)
        if rng.random() < 0.5:
            b, desc = corpus.mutate(rng, lay)
        else:
            b, desc = bytes(lay.buf), ("unmutated",)
        if rng.random() < 0.2:
            b += gen.rbytes(rng, rng.randrange(1, 6))
        nt = check_sd(H, b, ctx, replay)
        return ("sd", b, desc), nt
    if r < 0.7:
        lay, m = corpus.gen_someip(rng)
        b, desc = corpus.mutate(rng, lay) if rng.random() < 0.5 else (bytes(lay.buf) + gen.rbytes(rng, rng.randrange(0, 20)), ("suffix",))
        nt = check_someip(H, b, ctx, replay)
        return ("someip", b[:64], desc), nt
    if r < 0.8:
        f, _ = sdgen.gen_entry_fields(rng)
        nopt = rng.choice((0, 1, 5, 40, 255))
        f.update(i1=rng.randrange(0, 256), i2=rng.randrange(0, 256), n1=rng.randrange(16), n2=rng.randrange(16))
        if rng.random() < 0.7:
            f["n1"] = min(f["n1"], nopt)
            f["i1"] = rng.randrange(0, nopt - f["n1"] + 1)
            f["n2"] = min(f["n2"], nopt)
            f["i2"] = rng.randrange(0, nopt - f["n2"] + 1)
        b = refwire.encode_entry(f) + gen.rbytes(rng, rng.choice((0, 0, 3)))
        if rng.random() < 0.3:
            bb = bytearray(b)
            bb[rng.randrange(16)] = rng.randrange(256)
            b = bytes(bb)
        nt = check_entry(H, b, nopt, ctx, replay)
        return ("entry", b, nopt), nt
    spec = sdgen.gen_option(rng)
    t, body = corpus.noncanon_option(rng, spec)
    if rng.random() < 0.2:
        t = rng.randrange(256)
    b = refwire.encode_option(t, body) + gen.rbytes(rng, rng.choice((0, 0, 2)))
    if rng.random() < 0.3:
        bb = bytearray(b)
        bb[rng.randrange(len(bb))] = rng.randrange(256)
        b = bytes(bb)
    nt = check_option(H, b, ctx, replay)
    return ("option", b, None), nt


def shards(tier, seed):
    k = 8 if tier == "quick" else 16
    n = 7000 if tier == "quick" else 250000
    return [dict(shard=i, seed=seed, n=n) for i in range(k)]


def run(spec, ctx):
    import someip.header as H

    base = f"C20/{spec['seed']}/{spec['shard']}"
    for i in range(spec["n"]):
        rng = random.Random(f"{base}/{i}")
        key, nt = one_case(H, rng, ctx, dict(base=base, index=i))
        ctx.case((key[0], bytes(key[1]) if isinstance(key[1], (bytes, bytearray)) else key[1]), nt,
                 sample=dict(decoder=key[0], input=key[1][:96], mutation=key[2]) if i < 2 else None)
        ctx.note("decoders", key[0])


def replay(doc, ctx):
    import someip.header as H

    rng = random.Random(f"{doc['base']}/{doc['index']}")
    one_case(H, rng, ctx, doc)
    ctx.case(("replay",), True)
