"""C07 - peer reboot is detected exactly, per sender and per unicast/multicast channel."""
from __future__ import annotations

import itertools
import random

from pv import net, refwire
from pv.vloop import Harness

ID = "C07"
LEVEL = "exploration"
EXHAUSTIVE = True
TECHNIQUE = "runtime reboot-detector model vs reboot_detected fan-out log of a live ServiceDiscoveryProtocol, closure over the boundary alphabet"
LEVEL_TEXT = ("All 13x12 transitions of one (sender, channel) key and all 13x13 joint states x 24 inputs of two keys (other "
              "sender / other channel) over the boundary session ids are driven through datagram_received and compared with "
              "the model (exhaustive for that alphabet); longer random histories with noise datagrams on top")
LEVEL_NOTE = ("trusts the 10-line detector model in this module; observation by wrapping the three public reboot_detected "
              "methods on the instance (dynamic lookup verified by counters); session id 0 is outside the stated domain")
RULE = (
    "per key the state is the last (reboot flag, session id) or unknown over ids {1,2,3,0x7FFF,0xFFFE,0xFFFF}: every "
    "(state, input) for one key, every (state1, state2, input on either key) for two keys that differ in sender host, in sender port or in "
    "channel, every (state, input, input) delivered as a burst inside one loop iteration (same channel / both channels / two "
    "messages in one datagram), then seeded random histories (<=200 messages, 4 senders x 2 channels, ids 1..0xFFFF, empty and non-empty SD "
    "messages, non-SD noise in between). distinct = distinct abstract (state(s), input) or random history prefix hash; "
    "non-trivial = key state known before the input"
)
ASSUMPTIONS = ["detector model: flag and (not old_flag or sid <= old_sid); first message of a key never triggers",
               "messages are SD notifications with the unicast flag set; session id 0 never sent (C08)"]
FLOORS = {"quick": {"messages_judged": 20000, "detections_expected": 3000, "fanout_checks": 3000,
                    "single_key_transitions": 156, "two_key_cases": 3 * 13 * 13 * 24, "random_histories": 100, "burst_cases": 13 * 12 * 12 * 3,
                    "check_received_probe": 20000, "senders_judged_after_a_crowd_of_other_senders": 12, "crowd_members": 5000,
                    "mesh_scenarios": 100, "mesh_reboot_messages_judged": 6000, "mesh_reboot_detections_expected": 180, "mesh_reboot_fanout_checks": 90}}
# system-level shards: the mesh workload of pv/mesh.py under this property's boundary monitors (reports of other monitors are dropped)
MESH = {"want": ("reboot",), "claim": ("mesh:reboot-",),
        "quick": (2, 60), "thorough": (16, 1500)}

SIDS = (1, 2, 3, 0x7FFF, 0xFFFE, 0xFFFF)
INPUTS = [(f, s) for f in (False, True) for s in SIDS]
STATES = [None] + INPUTS


class Model:
    def __init__(self):
        self.last = {}

    def feed(self, sender, multicast, flag, sid):
        k = (sender, multicast)
        old = self.last.get(k)
        self.last[k] = (flag, sid)
        if old is None:
            return False
        return bool(flag and (not old[0] or sid <= old[1]))


class Rig:
    """one live SD protocol whose three components' reboot_detected are wrapped"""

    def __init__(self, ctx, rng):
        self.ctx = ctx
        self.h = Harness(rng)
        self.prot, self.tr = net.make_sd(self.h.loop)
        self.calls = []
        self.probe = []
        for name in ("discovery", "subscriber", "announcer"):
            comp = getattr(self.prot, name)
            orig = comp.reboot_detected

            def wrapper(addr, _orig=orig, _name=name):
                self.calls.append((_name, addr))
                return _orig(addr)

            comp.reboot_detected = wrapper
        ss = getattr(self.prot, "session_storage", None)
        cr = getattr(ss, "check_received", None)
        self.probe_ok = cr is not None
        if cr is not None:
            def probe(sender, multicast, flag, session_id, _cr=cr):
                r = _cr(sender, multicast, flag, session_id)
                self.probe.append(bool(r))
                return r

            ss.check_received = probe
        self.model = Model()
        self.t = 0.0
        self.n = 0

    def send(self, sender, multicast, flag, sid, entries=(), noise=False):
        """inject one message in its own loop instant and judge it; returns list of problems"""
        self.t += 2.0 ** -7
        self.calls.clear()
        self.probe.clear()
        self.h.loop.max_iterations = self.h.loop.iteration + 2000  # the rig lives for a whole shard: budget per message
        if noise:
            data = net.refwire.sd_datagram(0xC0 if flag else 0x40, [], [], sid, mid=0x8101)
        else:
            # a fifth of the messages carries the unicast flag clear: its entries are ignored, but it is a received SD
            # message like any other - it is compared with its predecessor and remembered for its successor
            uc = self.n % 5 != 3
            if not uc:
                self.ctx.count("messages_with_unicast_flag_clear")
            # every seventh message is padded behind its option array (decodable as it is): it takes part like any other
            pad = (b"\x00", b"\x00\x00\x00", b"\xff\x00")[self.n % 3] if self.n % 7 == 5 else b""
            if pad:
                self.ctx.count("messages_padded_behind_the_option_array")
            data = net.sd_bytes(list(entries), sid, reboot=flag, unicast=uc, pad=pad)
        self.h.at(self.t, self.prot.datagram_received, data, sender, multicast)
        self.h.run(self.t)
        self.n += 1
        problems = []
        if noise:
            if self.calls:
                problems.append(("non-SD-message-triggered-reboot-detection", list(self.calls)))
            return problems
        exp = self.model.feed(sender, multicast, flag, sid)
        self.ctx.count("messages_judged")
        got = sorted(self.calls)
        want = sorted((n, sender) for n in ("discovery", "subscriber", "announcer")) if exp else []
        if exp:
            self.ctx.count("detections_expected")
            self.ctx.count("fanout_checks")
        if got != want:
            if exp and not got:
                mech = "reboot-not-detected"
            elif not exp and got:
                mech = "false-reboot-detection"
            else:
                mech = "detection-does-not-reach-each-component-exactly-once"
            problems.append((mech, dict(expected=want, got=got)))
        if self.probe_ok:
            self.ctx.count("check_received_probe")
            if self.probe != [exp]:
                problems.append(("check_received-return-differs-from-model", dict(expected=exp, got=list(self.probe))))
        return problems

    def send_burst(self, msgs, one_datagram=False):
        """several messages handled in ONE loop iteration (two sockets readable in the same select round, or several SD
        messages in one UDP frame); every detection must still reach every component once"""
        self.t += 2.0 ** -7
        self.calls.clear()
        self.probe.clear()
        self.h.loop.max_iterations = self.h.loop.iteration + 2000
        self.n += 1
        datas = [(net.sd_bytes([], sid, reboot=flag, unicast=(self.n + i) % 4 != 1), sender, mc) for i, (sender, mc, flag, sid) in enumerate(msgs)]
        if one_datagram:
            sender, mc = msgs[0][0], msgs[0][1]
            frame = b"".join(d[0] for d in datas)
            if self.n % 2:
                # an SD message whose payload does not decode travels in front of the others in the same frame: it is dropped
                # (it is no received SD message at all), the messages behind it are handled as if it were not there
                junk = refwire.encode_someip(dict(sid=0xFFFF, mid=0x8100, cid=0, sess=0x7777, iv=1, mt=2, rc=0,
                                                  payload=bytes.fromhex("c0000000000000100800000010000001010000030000000000000000")))
                frame = junk + frame
                self.ctx.count("frames_with_an_undecodable_sd_message_in_front")
            self.h.at(self.t, self.prot.datagram_received, frame, sender, mc)
        else:
            for data, sender, mc in datas:
                self.h.at(self.t, self.prot.datagram_received, data, sender, mc)
        self.h.run(self.t)
        want = []
        for sender, mc, flag, sid in msgs:
            self.ctx.count("messages_judged")
            if self.model.feed(sender, mc, flag, sid):
                self.ctx.count("detections_expected")
                self.ctx.count("fanout_checks")
                want += [(n, sender) for n in ("discovery", "subscriber", "announcer")]
        self.ctx.count("burst_messages", len(msgs))
        problems = []
        if sorted(self.calls) != sorted(want):
            mech = "detection-does-not-reach-each-component-exactly-once" if len(self.calls) < len(want) or self.calls else "reboot-not-detected"
            if not want:
                mech = "false-reboot-detection"
            problems.append((mech, dict(expected=sorted(want), got=sorted(self.calls), burst=True, one_datagram=one_datagram)))
        return problems

    def close(self):
        bad = self.h.problems()
        self.h.close()
        return bad


def addr_for(i, v6=False):
    if v6:
        return (f"2001:db8::{(i + 1) >> 16:x}:{(i + 1) & 0xFFFF:x}", 30490, 0, 0)
    return (f"10.{(i >> 16) & 255}.{(i >> 8) & 255}.{i & 255}", 30490)


def shards(tier, seed):
    out = [dict(shard=0, seed=seed, mode="single"),
           dict(shard=1, seed=seed, mode="two", variant="other-sender"),
           dict(shard=2, seed=seed, mode="two", variant="other-channel"),
           dict(shard=3, seed=seed, mode="two", variant="other-port"),
           dict(shard=5, seed=seed, mode="two", variant="other-scope"),
           dict(shard=4, seed=seed, mode="bursts")]
    out.append(dict(shard=6, seed=seed, mode="crowd", sizes=(300, 1100, 4200) if tier == "quick" else (300, 1100, 4200, 17000, 66000)))
    k = 4 if tier == "quick" else 16
    n = 40 if tier == "quick" else 3000
    out += [dict(shard=10 + i, seed=seed, mode="random", n=n) for i in range(k)]
    return out


def report(ctx, problems, history):
    for mech, detail in problems:
        ctx.violation(mech, dict(detail=detail, history_tail=history[-6:]), dict(history=history))


def run(spec, ctx):
    rng = random.Random(f"C07/{spec['seed']}/{spec['shard']}")
    rig = Rig(ctx, rng)
    fresh = itertools.count(1)
    try:
        if spec["mode"] == "single":
            first = True
            for mc in (False, True):
                for st in STATES:
                    for inp in INPUTS:
                        a = addr_for(next(fresh), v6=mc)
                        hist = []
                        if st is not None:
                            hist.append((a, mc, st[0], st[1], False))
                            report(ctx, rig.send(a, mc, st[0], st[1]), hist)
                        hist.append((a, mc, inp[0], inp[1], False))
                        report(ctx, rig.send(a, mc, inp[0], inp[1]), hist)
                        if not mc:
                            ctx.count("single_key_transitions")
                        ctx.case(("single", mc, st, inp), st is not None,
                                 sample=dict(channel="multicast" if mc else "unicast", state=st, input=inp)
                                 if first and st is not None else None)
                        if st is not None:
                            first = False
        elif spec["mode"] == "two":
            for s1 in STATES:
                for s2 in STATES:
                    for which in (0, 1):
                        for inp in INPUTS:
                            a1 = addr_for(next(fresh))
                            if spec["variant"] == "other-sender":
                                k1, k2 = (a1, False), (addr_for(next(fresh)), False)
                            elif spec["variant"] == "other-port":
                                k1, k2 = (a1, False), ((a1[0], a1[1] + 1), False)
                            elif spec["variant"] == "other-scope":
                                # one link-local address behind two interfaces: the socket addresses differ in the scope id only
                                ll = f"fe80::{next(fresh):x}"
                                k1, k2 = ((ll, 30490, 0, 2), False), ((ll, 30490, 0, 3), False)
                            else:
                                k1, k2 = (a1, False), (a1, True)
                            hist = []
                            for k, s in ((k1, s1), (k2, s2)):
                                if s is not None:
                                    hist.append((k[0], k[1], s[0], s[1], False))
                                    report(ctx, rig.send(k[0], k[1], s[0], s[1]), hist)
                            k = (k1, k2)[which]
                            hist.append((k[0], k[1], inp[0], inp[1], False))
                            report(ctx, rig.send(k[0], k[1], inp[0], inp[1]), hist)
                            ctx.count("two_key_cases")
                            ctx.case(("two", spec["variant"], s1, s2, which, inp), s1 is not None or s2 is not None)
        elif spec["mode"] == "crowd":
            # a busy segment: a few senders are heard, then very many others (every one a first contact, some of them twice),
            # then the few again - what they sent before still decides; the whole walk is repeated for several sizes
            for size in spec["sizes"]:
                victims = [(addr_for(next(fresh), v6=i % 2 == 1), i >= 2) for i in range(4)]
                before = {}
                for v, mc in victims:
                    st = rng.choice(((True, 5), (False, 7), (True, 0xFFFF), (False, 300)))
                    before[(v, mc)] = st
                    report(ctx, rig.send(v, mc, st[0], st[1]), [(v, mc, st[0], st[1], False)])
                for j in range(size):
                    a = addr_for(next(fresh), v6=j % 3 == 0)
                    mc = j % 2 == 0
                    for pr in rig.send(a, mc, True, 1 + j % 3):
                        ctx.violation(pr[0], dict(detail=pr[1], crowd_size=size, member=j), dict(kind="whole-shard"))
                    if j % 7 == 0:
                        for pr in rig.send(a, mc, True, 9):
                            ctx.violation(pr[0], dict(detail=pr[1], crowd_size=size, member=j), dict(kind="whole-shard"))
                for n, (v, mc) in enumerate(victims):
                    st = before[(v, mc)]
                    inp = ((True, 1), (True, st[1]), (st[0], min(st[1] + 1, 0xFFFF)), (False, 1))[(n + size) % 4]
                    for pr in rig.send(v, mc, inp[0], inp[1]):
                        ctx.violation(pr[0], dict(detail=pr[1], crowd_size=size, earlier=st, now=inp,
                                                  note="between the two messages of this sender, crowd_size other senders were heard"),
                                      dict(kind="whole-shard"))
                    ctx.count("senders_judged_after_a_crowd_of_other_senders")
                ctx.count("crowd_members", size)
                ctx.case(("crowd", size), True, sample=dict(crowd_size=size, victims=4) if size == spec["sizes"][0] else None)
        elif spec["mode"] == "bursts":
            # all pairs of inputs for one sender delivered in one iteration, after each prior state, on the same channel,
            # on both channels, and packed into one datagram
            first = True
            for st in STATES:
                for i1 in INPUTS:
                    for i2 in INPUTS:
                        for shape in ("same-channel", "both-channels", "one-datagram"):
                            a = addr_for(next(fresh))
                            hist = []
                            if st is not None:
                                for mc in (False, True):
                                    hist.append((a, mc, st[0], st[1], False))
                                    report(ctx, rig.send(a, mc, st[0], st[1]), hist)
                            m1 = (a, False, i1[0], i1[1])
                            m2 = (a, shape == "both-channels", i2[0], i2[1])
                            hist += [m1 + ("burst",), m2 + ("burst",)]
                            report(ctx, rig.send_burst([m1, m2], one_datagram=shape == "one-datagram"), hist)
                            ctx.count("burst_cases")
                            ctx.case(("burst", st, i1, i2, shape), st is not None,
                                     sample=dict(prior_state=st, burst=[i1, i2], shape=shape) if first and st is not None else None)
                            if st is not None:
                                first = False
        else:
            for i in range(spec["n"]):
                senders = [addr_for(next(fresh), v6=(j % 2 == 1)) for j in range(3)]
                senders.append((senders[0][0], senders[0][1] + 1))  # same host as the first sender, other port
                hist = []
                L = rng.randrange(20, 201)
                cur = {}
                for _ in range(L):
                    s = rng.choice(senders)
                    mc = rng.random() < 0.4
                    r = rng.random()
                    old = cur.get((s, mc), (True, 0))
                    if r < 0.5:  # well-behaved continuation
                        flag, sid = old[0], old[1] + 1
                        if sid > 0xFFFF:
                            flag, sid = False, 1
                    elif r < 0.6:  # reboot
                        flag, sid = True, rng.choice((1, 1, 2, old[1], max(1, old[1] - 1)))
                    elif r < 0.8:
                        flag, sid = rng.random() < 0.5, rng.choice(SIDS)
                    else:
                        flag, sid = rng.random() < 0.5, rng.randrange(1, 0x10000)
                    sid = min(max(sid, 1), 0xFFFF)
                    noise = rng.random() < 0.08
                    ents = ()
                    if rng.random() < 0.3:
                        # (a third of these carry an SD endpoint option that names another address or port than the datagram's
                        #  source - a relayed or multi-homed peer: the reboot memory is kept per source address all the same)
                        o1 = [refwire.ep4("10.0.0.99", rng.choice((30490, 40001)), typ=0x24)] if rng.random() < 0.35 else []
                        ents = (net.offer(0x4000 + rng.randrange(4), 1, ttl=rng.choice((0, 3)), o1=o1),)
                        if o1:
                            ctx.count("messages_with_an_sd_endpoint_option_naming_another_address")
                    elif rng.random() < 0.1:
                        ents = (net.find(0x4000),)
                    hist.append((s, mc, flag, sid, noise))
                    if not noise:
                        cur[(s, mc)] = (flag, sid)
                    report(ctx, rig.send(s, mc, flag, sid, ents, noise), hist)
                ctx.count("random_histories")
                ctx.case(("rand", tuple((h[0][0], h[1], h[2], h[3]) for h in hist[:12])), True,
                         sample=dict(history=[(h[0][0], "mc" if h[1] else "uc", h[2], h[3], "noise" if h[4] else "sd")
                                              for h in hist[:10]]) if i == 0 else None)
    finally:
        bad = rig.close()
    for b in bad:
        ctx.violation("unexpected-exception-during-run", b, None)


def replay(doc, ctx):
    rng = random.Random(0)
    rig = Rig(ctx, rng)
    hist = []
    try:
        burst = []
        for s, mc, flag, sid, noise in doc["history"]:
            s = tuple(s)
            hist.append((s, mc, flag, sid, noise))
            if noise == "burst":
                burst.append((s, mc, flag, sid))
                continue
            report(ctx, rig.send(s, mc, flag, sid, (), bool(noise)), hist)
        if burst:
            report(ctx, rig.send_burst(burst), hist)
            report(ctx, Rig(ctx, rng).send_burst(burst, one_datagram=True) if False else [], hist)
        ctx.case(("replay",), True)
    finally:
        rig.close()
