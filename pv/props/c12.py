"""C12 - FindService is answered only by matching, ready instances, by unicast, in time."""
from __future__ import annotations

import itertools
import random

from pv import net, refwire
from pv.props import c10
from pv.vloop import Harness, EPS, BEFORE, AFTER, RES

ID = "C12"
LEVEL = "exploration"
TECHNIQUE = ("runtime answer predictor (reference wildcard matcher + lifecycle model) vs decoded unicast Offer entries of a live "
             "announcer on a virtual-time loop; FindService injected at every lifecycle instant class")
LEVEL_TEXT = ("Find entries over all 54 exact/wildcard/mismatch combinations per target instance, against 1-3 instances with differing "
              "ids and versions, by unicast and multicast, 1-3 entries per message, arriving in every lifecycle class (initial wait, at "
              "the first offer ahead/behind/one resolution around it, between decision and transmission of the first offer, "
              "repetition phase, main phase, around a stop, stopped), for all answer-delay windows and collection timeouts; the "
              "decoded answers must be exactly the predicted ones (one per entry and matching ready instance, to the requester only, "
              "inside the time window). Combinations of these dimensions are sampled")
LEVEL_NOTE = ("trusts the reference matcher and lifecycle model (shared with C10) and pv/refwire.py; draws are forced to a known "
              "fraction, so the multicast answer instant is predicted exactly; coincidence with the first offer or a stop is 'either'")
RULE = (
    "per scenario: timing configuration from the C10 grid, 1-3 instances from a pool with shared service ids and differing "
    "instance/major/minor, one instance optionally stopped; 1-3 Find entries per message, each derived from an instance by "
    "setting service id {exact, other} and instance/major/minor {exact, wildcard, other}; arrival instant drawn from the lifecycle "
    "classes; unicast or multicast; 1-2 requesters. distinct = distinct (config class, instance set, entry patterns, channel, "
    "lifecycle class); non-trivial = at least one instance is predicted to answer or is silenced by its lifecycle phase"
)
ASSUMPTIONS = ["'has already sent its first offer' = the first offer was decided (queued); it may still sit in the send collector",
               "an answer may leave up to SEND_COLLECTION_TIMEOUT after it was due"]
FLOORS = {"quick": {"scenarios": 8000, "find_entries": 12000, "answers_predicted": 6000, "answers_matched": 6000,
                    "silent_by_mismatch": 10000, "silent_by_phase": 2000, "multicast_delayed_answers": 2000, "wildcard_entries": 5000,
                    "lifecycle_classes": 15, "requests_with_more_than_80_find_entries": 120,
                    "mesh_scenarios": 100, "mesh_find_deliveries_judged": 180, "mesh_find_answers_matched": 90}}
# system-level shards: the mesh workload of pv/mesh.py under this property's boundary monitor (reports of other monitors are dropped)
MESH = {"want": ("findanswer",), "claim": ("mesh:find-not-answered", "mesh:unicast-offer-that-no-find-explains"),
        "quick": (2, 60), "thorough": (16, 1500)}

POOL = [(0x5001, 1, 1, 10), (0x5001, 2, 1, 10), (0x5001, 1, 2, 11), (0x5002, 1, 1, 10), (0x5001, 3, 1, 12)]
PEERS = [("10.0.8.9", 30490), ("2001:db8::89", 30490, 0, 0),
         # one link-local address behind two interfaces, and two ports of one host: requesters that differ in one component only
         ("fe80::89", 30490, 0, 2), ("fe80::89", 30490, 0, 3), ("10.0.8.9", 30491),
         # another SD process on the same host, bound to the same address and port (the sockets are opened with SO_REUSEPORT for
         # exactly that): its messages come from this stack's own socket name
         ("10.0.8.1", 30490)]
SIBLING = {("fe80::89", 30490, 0, 2): ("fe80::89", 30490, 0, 3), ("fe80::89", 30490, 0, 3): ("fe80::89", 30490, 0, 2),
           ("10.0.8.9", 30490): ("10.0.8.9", 30491), ("10.0.8.9", 30491): ("10.0.8.9", 30490)}
W = (0xFFFF, 0xFF, 0xFFFFFFFF)
CLASSES = ("initial-wait", "first-offer:d-eps", "first-offer:before", "first-offer:after", "first-offer:d+eps", "first-offer:d-res", "in-collector",
           "repetition", "main", "stop:d-eps", "stop:same-before", "stop:same-after", "stop:d+eps", "stopped", "restart-while-pending")


def matches(svc, ent):
    if svc[0] != ent[0]:
        return False
    return all(e == w or s == e for s, e, w in zip(svc[1:], ent[1:], W))


def gen_entry(rng, base):
    pat = [rng.choice(("exact", "exact", "other"))] + [rng.choice(("exact", "wild", "wild", "other")) for _ in range(3)]
    if rng.random() < 0.35:
        pat = ["exact"] + [rng.choice(("exact", "wild")) for _ in range(3)]
    ent = []
    for i, (p, v) in enumerate(zip(pat, base)):
        if p == "exact":
            ent.append(v)
        elif p == "wild":
            ent.append(W[i - 1])
        else:
            ent.append(v + 1 if i else v ^ 0x0100)
    return tuple(ent), tuple(pat)


class Run:
    def __init__(self, cfg, insts, script, seed):
        import ipaddress
        import someip.config as C
        import someip.header as H
        import someip.sd as S

        self.h = Harness(random.Random(seed), draw_mode=("const", cfg["f"]), max_iterations=200000)
        tm = net.timings(INITIAL_DELAY_MIN=cfg["window"][0], INITIAL_DELAY_MAX=cfg["window"][1],
                         REQUEST_RESPONSE_DELAY_MIN=cfg["rr"][0], REQUEST_RESPONSE_DELAY_MAX=cfg["rr"][1],
                         REPETITIONS_MAX=cfg["reps"], REPETITIONS_BASE_DELAY=c10.BD, CYCLIC_OFFER_DELAY=cfg["cyclic"],
                         ANNOUNCE_TTL=cfg["ttl"], SEND_COLLECTION_TIMEOUT=cfg["ct"])
        import dataclasses
        tm_proto = tm if (len(script) + len(insts)) % 2 else dataclasses.replace(tm, ANNOUNCE_TTL=7 if cfg["ttl"] != 7 else 9)
        self.prot, self.tr = net.make_sd(self.h.loop, ("10.0.8.1", 30490), timings=tm_proto)  # instances keep their own TTL
        self.insts = []
        self.ref_opts = []
        import zlib
        # the same ids get other options from scenario to scenario (an answer must carry the options configured now)
        variant = zlib.crc32(repr((sorted(cfg.items(), key=str), insts, [(t, r, sorted(a.items(), key=str)) for t, r, a in script])).encode())
        for i, (sid, iid, maj, minor) in enumerate(insts):
            v = (variant >> (3 * i)) & 7
            port = 3100 + i + 10 * (v & 3)
            proto = (H.L4Protocols.UDP, H.L4Protocols.TCP)[v >> 2]
            o1 = H.IPv4EndpointOption(address=ipaddress.IPv4Address("10.0.8.1"), l4proto=proto, port=port)
            o2 = H.SOMEIPSDLoadBalancingOption(priority=i + (v & 3), weight=7)
            run1, ref1 = (o1,), [refwire.ep4("10.0.8.1", port, proto=int(proto))]
            if (variant >> 11) & 3 == 0:
                # a family of instances behind one endpoint: every instance's first run starts with the same option and extends
                # the run of the instance announced before it (answers collected into one message share the option array)
                common = H.IPv4EndpointOption(address=ipaddress.IPv4Address("10.0.8.1"), l4proto=H.L4Protocols.UDP, port=3099)
                extra = [H.IPv4EndpointOption(address=ipaddress.IPv4Address("10.0.8.1"), l4proto=H.L4Protocols.TCP, port=3200 + j) for j in range(i)]
                run1 = (common,) + tuple(extra)
                ref1 = [refwire.ep4("10.0.8.1", 3099)] + [refwire.ep4("10.0.8.1", 3200 + j, proto=6) for j in range(i)]
            svc = C.Service(sid, iid, maj, minor, options_1=run1, options_2=(o2,), eventgroups=frozenset({1}))
            # the instance's Timings object is either complete when the instance is built, or - as applications that get their
            # objects from helpers do - filled in afterwards by assigning its fields before anything is started
            if (variant >> 17) & 1:
                import dataclasses as _dc
                itm = _dc.replace(tm, ANNOUNCE_TTL=5 if cfg["ttl"] != 5 else 6)
                self.insts.append(S.ServiceInstance(svc, S.ServerServiceListener(), self.prot.announcer, itm))
                itm.ANNOUNCE_TTL = cfg["ttl"]
            else:
                self.insts.append(S.ServiceInstance(svc, S.ServerServiceListener(), self.prot.announcer, tm))
            self.ref_opts.append((ref1, [refwire.opt_loadbal(i + (v & 3), 7)]))
        self.script = script
        self.sess = net.PeerSession()
        self.raised = []
        self.first_offer = {}  # instance index -> instant its first multicast offer was decided (queue_send boundary)
        ann = self.prot.announcer
        orig = ann.queue_send
        keys = {(x[0], x[1], x[2]): i for i, x in enumerate(insts)}

        def queue_send(entry, remote=None):
            k = keys.get((entry.service_id, entry.instance_id, entry.major_version))
            if k is not None and remote is None and entry.ttl > 0 and int(entry.sd_type) == 1:
                self.first_offer.setdefault(k, self.h.loop.time())
            return orig(entry, remote=remote)

        ann.queue_send = queue_send

    def do(self, a):
        ann = self.prot.announcer
        try:
            if a["kind"] == "setup":
                for inst in self.insts:
                    ann.announce_service(inst)
            elif a["kind"] == "ann_start":
                _STARTS[0] += 1
                if _STARTS[0] % 3 == 0 and not any(x["kind"] in ("unannounce", "reannounce") for _t, _r, x in self.script):
                    # the application starts its registered instances one by one (ServiceInstance.start()) and never the
                    # announcer as a whole: an instance that has started answers like any other
                    for inst in self.insts:
                        inst.start()
                    _STARTS[1] += 1
                else:
                    ann.start()
            elif a["kind"] == "unannounce":
                ann.stop_announce_service(self.insts[a["k"]])
            elif a["kind"] == "reannounce":
                ann.announce_service(self.insts[a["k"]])
            elif a["kind"] == "reboot_msg":
                # the requester restarts and says so (session id starts over, reboot flag set) while its answer is still waiting
                # in the collection window: the answer is owed all the same
                self.sess.state.pop((a["peer"], a["mc"]), None)
                fl, sid = self.sess.next((a["peer"], a["mc"]))
                data = net.sd_bytes([net.find(0x7F7F, 1, 1, 0)], sid, reboot=fl)
                self.prot.datagram_received(data, a["peer"], a["mc"])
            elif a["kind"] == "find":
                fl, sid = self.sess.next((a["peer"], a["mc"]))
                data = net.sd_bytes([net.find(*e) for e in a["entries"]], sid, reboot=fl)
                self.prot.datagram_received(data, a["peer"], a["mc"])
        except Exception as exc:
            self.raised.append(repr(exc))

    def execute(self, horizon):
        for t, rank, a in self.script:
            self.h.at(t, self.do, a, rank=rank)
        self.h.run(horizon)
        problems = self.h.problems()
        sent = net.decode_sent(self.tr.sent)
        self.h.close()
        return sent, problems


_STARTS = [0, 0]


def build(rng):
    cfg = c10.make_config(rng)
    ninst = rng.randrange(1, 4)
    insts = rng.sample(POOL, ninst)
    s0 = 0.25
    v = cfg["window"][0] + (cfg["window"][1] - cfg["window"][0]) * cfg["f"]
    T = c10.schedule(cfg, s0, s0 + 6.0, max_cyclic=3)
    T0 = T[0]
    stop_k = rng.randrange(ninst) if rng.random() < 0.45 else None
    x = T[-1] + 0.3125 if stop_k is not None else None
    cls = rng.choice(CLASSES)
    if (cls.startswith("stop") or cls == "restart-while-pending") and stop_k is None:
        stop_k, x = rng.randrange(ninst), T[-1] + 0.3125
    rank = BEFORE
    order = "find-first"
    if cls == "initial-wait":
        y = s0 + v / 2 if v > 0 else None
    elif cls == "first-offer:d-eps":
        y = T0 - EPS
    elif cls == "first-offer:before":
        y = T0
    elif cls == "first-offer:after":
        y, rank = T0, AFTER
    elif cls == "first-offer:d+eps":
        y = T0 + EPS
    elif cls == "first-offer:d-res":
        y = T0 - RES / 2  # less than a clock resolution ahead: the loop sends the first offer in the iteration of the request
    elif cls == "in-collector":
        y = T0 + cfg["ct"] / 2 if cfg["ct"] else None
    elif cls == "repetition":
        y = (T[0] + T[1]) / 2 if cfg["reps"] else None
    elif cls == "main":
        y = T[-1] + 0.125
    elif cls == "restart-while-pending":
        # a multicast request whose delayed answer is still pending when the instance is withdrawn and announced again; the new
        # run's initial wait outlasts the answer window, so the old request stays unanswered (decided below, once mc is known)
        y = x - cfg["rr"][0] / 4 if cfg["rr"][0] > 0 and cfg["window"][0] > cfg["rr"][1] else None
    elif cls == "stop:d-eps":
        y = x - EPS
    elif cls == "stop:same-before":
        y = x
    elif cls == "stop:same-after":
        y, order = x, "stop-first"
    elif cls == "stop:d+eps":
        y = x + EPS
    else:
        y = x + 0.25
    if y is None or y <= s0:
        return None
    mc = rng.random() < 0.5 or cls == "restart-while-pending"
    nent = rng.choice((1, 1, 1, 2, 3))
    if rng.random() < 0.05:
        nent = rng.choice((30, 45, 90, 130))  # one request asking for very many things at once: up to a few hundred answers fall due together
    entries, pats = [], []
    for _ in range(nent):
        e, p = gen_entry(rng, rng.choice(insts))
        entries.append(e)
        pats.append(p)
    peer = rng.choice(PEERS)
    twin = rng.random() < 0.3  # a second requester sends the same entries in the same loop iteration
    script = [(0.0, BEFORE, dict(kind="setup")), (s0, BEFORE, dict(kind="ann_start"))]
    find = (y, rank, dict(kind="find", peer=peer, mc=mc, entries=entries))
    if x is not None:
        stop = (x, BEFORE, dict(kind="unannounce", k=stop_k))
        script += [stop, find] if order == "stop-first" else [find, stop]
        if cls == "restart-while-pending":
            script.append((x + cfg["rr"][0] / 4, BEFORE, dict(kind="reannounce", k=stop_k)))
    else:
        script.append(find)
    script.sort(key=lambda it: (it[0], it[1]))
    if x is not None and abs(x - y) <= RES and rank == BEFORE:
        # same (instant, rank) group keeps script order: enforce the requested order
        script = [it for it in script if it[2]["kind"] not in ("find", "unannounce")] + ([stop, find] if order == "stop-first" else [find, stop])
        script.sort(key=lambda it: (it[0], it[1]))
    peers = [peer]
    if twin:
        other = SIBLING.get(peer) or [p for p in PEERS if p != peer][0]
        peers.append(other)
        idx = next(i for i, it in enumerate(script) if it[2]["kind"] == "find")
        script.insert(idx + 1, (y, rank, dict(kind="find", peer=other, mc=mc, entries=entries)))
    d = c10.answer_delay(cfg) if mc else 0.0
    reboot_in_window = bool(cfg["ct"]) and rng.random() < 0.25
    if reboot_in_window:
        script.append((y + d + cfg["ct"] / 2, BEFORE, dict(kind="reboot_msg", peer=peer, mc=mc)))
        script.sort(key=lambda it: (it[0], it[1]))
    horizon = max(y + d, x or 0) + 1.0
    return dict(cfg=cfg, insts=insts, script=script, y=y, x=x, stop_k=stop_k, T0=T0, mc=mc, entries=entries, pats=pats,
                peer=peer, peers=peers, cls=cls, d=d, horizon=horizon)


def judge(ctx, sc, seed, replay):
    cfg = sc["cfg"]
    run = Run(cfg, sc["insts"], sc["script"], seed)
    sent, problems = run.execute(sc["horizon"])
    ctx.count("scenarios")
    ctx.count("scenarios_whose_instances_were_started_one_by_one", _STARTS[1])
    _STARTS[1] = 0
    ctx.count("find_entries", len(sc["entries"]))
    if len(sc["entries"]) > 80:
        ctx.count("requests_with_more_than_80_find_entries")
    ctx.note("lifecycle_classes_seen", sc["cls"])
    y, x, d, ct = sc["y"], sc["x"], sc["d"], cfg["ct"]
    # the property promises the answer "inside the configured request-response window", not a particular draw
    zlo, zhi = (y + cfg["rr"][0], y + cfg["rr"][1]) if sc["mc"] else (y, y)
    z = y + d
    wmin, wmax = cfg["window"]
    must = []  # (k, count)
    may = []
    nontrivial = False
    for k, svc in enumerate(sc["insts"]):
        n = sum(1 for e in sc["entries"] if matches(svc, e))
        ctx.count("silent_by_mismatch", len(sc["entries"]) - n)
        if n == 0:
            continue
        stopped = sc["stop_k"] == k
        T0 = run.first_offer.get(k)  # observed; must lie in the initial-delay window (C10 owns that)
        if T0 is None or y < T0 - RES or (stopped and x < y - RES):
            ctx.count("silent_by_phase", n)
            nontrivial = True
            continue
        either = abs(y - T0) <= RES or (stopped and (abs(x - y) <= RES or (zlo - RES <= x <= zhi + RES)))
        if stopped and not either and y - RES <= x < zlo - RES:
            ctx.count("silent_by_phase", n)  # stopped while the delayed answer was pending
            nontrivial = True
            continue
        (may if either else must).append((k, n))
        nontrivial = True
    for e in sc["entries"]:
        if any(a == w for a, w in zip(e[1:], W)):
            ctx.count("wildcard_entries")
    ctx.count("answers_predicted", sum(n for _k, n in must))

    def bad(mech, **detail):
        detail.update(config=cfg, instances=sc["insts"], entries=sc["entries"], lifecycle_class=sc["cls"], multicast=sc["mc"],
                      find_at=y, stop_at=x, stopped_instance=sc["stop_k"], first_offers=run.first_offer)
        ctx.violation(mech, detail, replay)

    for r in run.raised:
        bad("lifecycle-or-receive-call-raises", exc=r)
    for p in problems:
        bad("unexpected-exception-during-run", problem=p)
    ids = {(s[0], s[1], s[2]): k for k, s in enumerate(sc["insts"])}
    tol = 4 * RES
    if len(sc["peers"]) > 1:
        ctx.count("two_requesters_in_one_iteration")
    for the_peer in sc["peers"]:
        _judge_peer(ctx, sc, run, sent, the_peer, must, may, ids, (zlo, zhi), ct, tol, bad)
    for msg in sent:
        if msg["dst"] != net.MCAST and msg["dst"] not in sc["peers"]:
            bad("answer-sent-to-someone-other-than-the-requester", dst=msg["dst"])
    return nontrivial


def _judge_peer(ctx, sc, run, sent, the_peer, must, may, ids, z, ct, tol, bad):
    cfg = sc["cfg"]
    d = sc["d"]
    got = {}
    for msg in sent:
        if msg["dst"] == net.MCAST:
            continue
        for e in msg["entries"]:
            k = ids.get((e["sid"], e["iid"], e["maj"]))
            if msg["dst"] != the_peer:
                continue
            if e["type"] != 1 or k is None:
                bad("unexpected-entry-sent-to-requester", entry=e)
                continue
            svc = sc["insts"][k]
            if e["ttl"] != cfg["ttl"] or e["val"] != svc[3] or (e["o1"], e["o2"]) != run.ref_opts[k]:
                bad("answer-content-differs-from-configuration", instance=k, entry=e)
            if not (z[0] - tol <= msg["t"] <= z[1] + ct + tol):
                mech = "unicast-answer-delayed" if not sc["mc"] else "multicast-answer-outside-delay-window"
                bad(mech, instance=k, sent_at=msg["t"], window=(z[0], z[1] + ct))
            got[k] = got.get(k, 0) + 1
    for k, n in must:
        g = got.pop(k, 0)
        if g != n:
            bad("ready-matching-instance-did-not-answer-exactly-once-per-entry" if g < n else "instance-answered-more-than-once-per-entry",
                instance=k, expected=n, got=g)
        else:
            ctx.count("answers_matched", n)
            if sc["mc"] and d > 0:
                ctx.count("multicast_delayed_answers", n)
    for k, n in may:
        g = got.pop(k, 0)
        if g not in (0, n):
            bad("instance-answered-wrong-number-of-times", instance=k, expected=(0, n), got=g)
    for k, g in got.items():
        svc = sc["insts"][k]
        if not any(matches(svc, e) for e in sc["entries"]):
            bad("non-matching-instance-answered", instance=k, got=g)
        else:
            bad("instance-in-initial-wait-or-stopped-answered", instance=k, got=g)


def shards(tier, seed):
    n = 16
    return [dict(shard=i, seed=seed, n=1500 if tier == "quick" else 60000) for i in range(n)]


def run(spec, ctx):
    base = f"C12/{spec['seed']}/{spec['shard']}"
    seen = set()
    for i in range(spec["n"]):
        rng = random.Random(f"{base}/{i}")
        sc = build(rng)
        if sc is None:
            continue
        nt = judge(ctx, sc, "s", dict(base=base, index=i))
        cfg = sc["cfg"]
        key = (cfg["window"], cfg["f"], cfg["reps"] > 0, bool(cfg["cyclic"]), cfg["ct"] > 0, cfg["rr"], tuple(sorted(sc["insts"])),
               tuple(sorted(sc["pats"])), sc["mc"], sc["cls"], sc["stop_k"] is not None)
        ctx.case(key, nt, sample=dict(config=cfg, instances=sc["insts"], find_entries=sc["entries"], multicast=sc["mc"],
                                      lifecycle_class=sc["cls"], find_at=sc["y"]) if i < 2 else None)
        seen.add(sc["cls"])
    if spec["shard"] == 0:
        ctx.count("lifecycle_classes", len(seen))


def replay(doc, ctx):
    rng = random.Random(f"{doc['base']}/{doc['index']}")
    sc = build(rng)
    judge(ctx, sc, "s", doc)
    ctx.case(("replay",), True)
