"""C09 - TTL expiry fires exactly once, on time, never early; a refresh postpones it."""
from __future__ import annotations

import logging
import math
import random

from pv import net, refwire
from pv.vloop import Harness, EPS, BEFORE, AFTER, RES

ID = "C09"
LEVEL = "exploration"
TECHNIQUE = ("runtime expiry-time monitor: recorded add/refresh/stop/remove histories on the TTL store (directly, through "
             "offers, through subscribes) in virtual time vs a deadline model, refreshes placed around every deadline")
LEVEL_TEXT = ("Held on every generated history of the run: per key the recorded 'new'/'stopped' callbacks (with virtual "
              "timestamps) must equal the deadline model's, with refreshes/stops placed far from, one resolution before/after "
              "and in the same loop iteration (both orders) as the pending deadline, TTLs incl. 0xFFFFFE and infinite, clock run "
              "past 0xFFFFFF s. Histories are sampled; the three drivers are the public TimedStore and its two real users")
LEVEL_NOTE = ("trusts the deadline model in this module and the virtual loop (CPython's scheduler with a virtual clock, FIFO order for "
              "equal deadlines); at exact coincidence both outcomes the property allows are accepted")
TIEBREAK_VARIANTS = True  # thorough tier: some shards run equal-deadline timers LIFO / in seeded random order
RULE = (
    "histories of 6..30 operations (add, add that the application rejects, refresh longer/shorter/to-infinite/from-infinite, stop, remove-all-for-address, "
    "connection loss, re-add) over 3 keys x 2 addresses with TTLs {1,2,3,0xFFFFFE,infinite}; each operation is placed either "
    "far from every deadline or at d-eps, d (ahead of the timer), d (behind the timer), d+eps of a pending deadline d. Drivers: "
    "TimedStore directly, Offer datagrams into a discovery endpoint, Subscribe datagrams into an announced instance. distinct = "
    "distinct (driver, operation/TTL/placement sequence); non-trivial = history contains a refresh or removal of a live entry"
)
ASSUMPTIONS = ["coincidence = closer than the loop's clock resolution (1e-9 s); eps = 2^-20 s is 'one resolution earlier/later' in the strict sense",
               "time tolerance for a callback: max(2 ns, 4 ulp of the virtual time)"]
FLOORS = {"quick": {"histories": 6000, "callbacks_matched": 40000, "expiries_on_time": 8000, "refresh_at_d_before": 800,
                    "refresh_at_d_after": 800, "refresh_d_minus_eps": 800, "refresh_d_plus_eps": 400, "infinite_entries_outlived_clock": 300,
                    "ttl_fffffe_expiries": 100, "driver_direct": 2000, "driver_offers": 2000, "driver_subscribes": 1500,
                    "removed_then_no_expiry": 3000, "rejected_new_entries": 1500,
                    "wakeups_within_resolution_before_a_deadline": 1500,
                    "find_rounds_started_or_restarted_amid_a_history": 600}}

FOREVER = 0xFFFFFF
TTLS = (1, 1, 2, 2, 3, 3, 0xFFFFFE, FOREVER)
# same host, other port; an IPv6 peer whose socket address carries a flow label and a scope id
ADDRS = (("10.0.1.1", 30490), ("10.0.1.1", 30491), ("fe80::91", 30490, 5, 2))


def _ep(a):
    return refwire.ep4(a[0], 4000) if ":" not in a[0] else refwire.ep6(a[0], 4000)
NKEYS = 3


def tol(t):
    # (a deadline reached through several partial timers accumulates a few ulps of rounding - at 2.5e7 s an ulp is 3.7 ns)
    return max(2 * RES, 16 * math.ulp(t))


# ------------------------------------------------------------------------------- script generation
def gen_history(rng, driver):
    """-> ops [(time, rank, op, slot|addr|None, ttl, placement)], expected {slot: [items]}
    item = ('cb', time, kind) | ('alt', time_d, time_new)   alt: [] or [stopped@d, new@time_new]"""
    slots = [(k, a) for k in range(NKEYS) for a in range(len(ADDRS))]
    state = {s: None for s in slots}  # None = absent, else deadline (math.inf for forever)
    expected = {s: [] for s in slots}
    ops = []
    now = 0.0
    nops = rng.randrange(6, 31)
    flags = dict(refresh_live=False)
    lost_done = False

    def expire_until(t, strict=True):
        for s in slots:
            d = state[s]
            if d is not None and d != math.inf and (d < t - RES if strict else d <= t + RES):
                expected[s].append(("cb", d, "stopped"))
                state[s] = None

    for _ in range(nops):
        if lost_done:
            break
        pending = sorted(set(d for d in state.values() if d is not None and d != math.inf and d >= now and d < 1e6))
        placement = "far"
        r = rng.random()
        if pending and r < 0.55:
            d = rng.choice(pending[:3])
            placement = rng.choice(("d-eps", "d:before", "d:after", "d+eps", "d-res"))
            # d-res: the loop is woken less than one clock resolution ahead of the deadline; asyncio then runs the
            # timer in that iteration already (when < time() + resolution), i.e. while loop.time() < handle.when()
            t = {"d-eps": d - EPS, "d:before": d, "d:after": d, "d+eps": d + EPS, "d-res": d - RES / 2}[placement]
            rank = AFTER if placement == "d:after" else BEFORE
            if t < now or (t == now and ops and ops[-1][1] == AFTER and rank == BEFORE) or 0 < t - now < 4 * RES:
                # (an operation less than a resolution after another one would be run together with it, i.e. earlier than
                # the model is told - the loop runs every timer with when < time() + resolution)
                placement = "far"
        if placement == "far" and rng.random() < 0.08 and any(d is not None and d != math.inf and d > now + 3.0e6 for d in state.values()):
            # weeks into a TTL of 0xFFFFFE seconds: whatever keeps that deadline must still be cancellable / movable then
            placement = "deep"
            t = now + rng.choice((2.2e6, 4.0e6, 9.0e6)) + rng.randrange(0, 64) / 8.0
            while any(d is not None and d != math.inf and abs(d - t) < 1.0 for d in state.values()):
                t += 2.0
            rank = BEFORE
            flags["deep"] = flags.get("deep", 0) + 1
        elif placement == "far":
            t = now + rng.choice((1, 2, 4, 8, 12, 20, 24, 36)) / 8.0
            # keep clear of every deadline so that 'far' really is unambiguous
            while any(d is not None and d != math.inf and abs(d - t) < 4 * EPS for d in state.values()):
                t += 2.0 ** -6
            rank = BEFORE
        expire_until(t)
        # choose the operation
        live = [s for s in slots if state[s] is not None]
        coincident = [s for s in live if state[s] != math.inf and abs(state[s] - t) <= RES]
        if placement in ("d:before", "d:after", "d-res") and coincident and rng.random() < (0.85 if placement != "d-res" else 0.4):
            s = rng.choice(coincident)
            op = rng.choice(("refresh", "refresh", "refresh", "stop", "stop_all"))
        elif live and rng.random() < 0.6:
            s = rng.choice(live)
            op = rng.choice(("refresh", "refresh", "refresh", "stop", "stop", "stop_all", "lost"))
        else:
            s = rng.choice(slots)
            op = "refresh"
        if op == "lost" and (driver == "subscribes" or rng.random() < 0.5):
            op = "stop"
        ttl = rng.choice(TTLS)
        reject = False
        if op == "refresh" and state[s] is None and driver != "offers" and rng.random() < 0.18:
            # the application rejects this new entry: nothing may be recorded, no timer may stay behind
            ops.append((t, rank, "refresh-rejected", s, ttl if ttl != FOREVER else 1, placement))
            flags["rejected"] = flags.get("rejected", 0) + 1
            now = t
            continue
        if op == "refresh":
            d = state[s]
            if d is None:
                expected[s].append(("cb", t, "new"))
            elif d != math.inf and abs(d - t) <= RES:
                expected[s].append(("alt", d, t))
                flags["refresh_live"] = True
            else:
                flags["refresh_live"] = True
            state[s] = math.inf if ttl == FOREVER else t + ttl
            ops.append((t, rank, "refresh", s, ttl, placement))
        elif op == "stop":
            if state[s] is not None:
                expected[s].append(("cb", t, "stopped"))
                flags["refresh_live"] = True
            state[s] = None
            ops.append((t, rank, "stop", s, 0, placement))
        elif op == "stop_all":
            a = s[1]
            for x in slots:
                if x[1] == a and state[x] is not None:
                    expected[x].append(("cb", t, "stopped"))
                    state[x] = None
                    flags["refresh_live"] = True
            ops.append((t, rank, "stop_all", a, 0, placement))
        else:
            for x in slots:
                if state[x] is not None:
                    expected[x].append(("cb", t, "stopped"))
                    state[x] = None
            ops.append((t, rank, "lost", None, 0, placement))
            lost_done = driver != "direct"
        now = t
    # run out: every finite entry expires, infinite ones never
    horizon = now + 5.0
    finite = [d for d in state.values() if d is not None and d != math.inf]
    has_inf = any(d == math.inf for d in state.values())
    if finite:
        horizon = max(horizon, max(finite) + 5.0)
    if has_inf:
        horizon = max(horizon, now + FOREVER + 300.0)
    for s in slots:
        d = state[s]
        if d is not None and d != math.inf:
            expected[s].append(("cb", d, "stopped"))
    return ops, expected, horizon, flags, has_inf


# ------------------------------------------------------------------------------- drivers
class Direct:
    name = "direct"

    def __init__(self, h, log):
        import someip.sd as S

        self.h, self.log = h, log
        self.store = S.TimedStore(logging.getLogger("someip.pvstore"))

    def _cb(self, kind):
        def cb(entry, address):
            self.log.append((self.h.loop.time(), (entry[1], ADDRS.index(address)), kind))
        return cb

    def refresh(self, slot, ttl):
        self.store.refresh(ttl, ADDRS[slot[1]], ("key", slot[0]), self._cb("new"), self._cb("stopped"))

    def refresh_rejected(self, slot, ttl):
        class Rejected(Exception):
            pass

        def refuse(entry, address):
            raise Rejected()

        try:
            self.store.refresh(ttl, ADDRS[slot[1]], ("key", slot[0]), refuse, self._cb("stopped"))
        except Rejected:
            return
        self.log.append((self.h.loop.time(), slot, "rejection-not-propagated"))

    def stop(self, slot):
        self.store.stop(ADDRS[slot[1]], ("key", slot[0]))

    def stop_all(self, a):
        self.store.stop_all_for_address(ADDRS[a])

    def lost(self):
        self.store.stop_all()

    def start(self):
        pass


class Offers:
    """through the discovery endpoint: Offer / StopOffer / reboot evidence / connection loss"""
    name = "offers"

    def __init__(self, h, log):
        self.h, self.log = h, log
        self.prot, self.tr = net.make_sd(h.loop, ("10.0.1.100", 30490))
        self.sess = [net.PeerSession() for _ in ADDRS]
        outer = self

        class L:
            def service_offered(self, service, source):
                outer.log.append((h.loop.time(), (service.service_id - 0x1000, ADDRS.index(source)), "new"))

            def service_stopped(self, service, source):
                outer.log.append((h.loop.time(), (service.service_id - 0x1000, ADDRS.index(source)), "stopped"))

        self.listener = L()

    def start(self):
        self.prot.discovery.watch_all_services(self.listener)

    def _send(self, a, entries):
        fl, sid = self.sess[a].next()
        self.prot.datagram_received(net.sd_bytes(net.with_riders(entries, sid // 2), sid, reboot=fl), ADDRS[a], False)

    def refresh(self, slot, ttl):
        # the endpoint sits in the first or in the second option run, alone or next to another option, from refresh to refresh
        self._n_offers = getattr(self, "_n_offers", 0) + 1
        # ... and a refresh may name another endpoint than its predecessor (the service moved to another port, or gained a
        # second endpoint): it is the same service from the same sender, a refresh like any other
        ep, lb = refwire.ep4("10.0.1.1", 3000 + (self._n_offers // 3) % 3), refwire.opt_loadbal(1, 1)
        o1, o2 = (([ep], []), ([], [ep]), ([ep], [lb]), ([lb], [ep]))[(self._n_offers // 2) % 4]
        self._send(slot[1], [net.offer(0x1000 + slot[0], 1, 1, 0, ttl, o1=o1, o2=o2)])

    def stop(self, slot):
        self._send(slot[1], [net.offer(0x1000 + slot[0], 1, 1, 0, 0)])

    def stop_all(self, a):
        self.sess[a].reboot()
        self._send(a, [])

    def lost(self):
        self.prot.connection_lost(None)

    def restart(self, k):
        # the application starts its find rounds late (listener first, start() afterwards - tools/monitor-sd.py), or starts
        # them anew: what is known about offered services, and when it runs out, is not a matter of the find rounds
        # (the discovery half only: an announcer's cyclic rounds would tick through the weeks-long horizons of this check)
        if k:
            self.prot.discovery.stop()
        self.prot.discovery.start()


class Subscribes:
    """through an announced instance: Subscribe / StopSubscribe / reboot evidence"""
    name = "subscribes"

    def __init__(self, h, log):
        import someip.config as C
        import someip.sd as S

        self.h, self.log = h, log
        tm = net.timings(INITIAL_DELAY_MIN=0, INITIAL_DELAY_MAX=0, REPETITIONS_MAX=0, CYCLIC_OFFER_DELAY=0,
                         SEND_COLLECTION_TIMEOUT=0)
        self.prot, self.tr = net.make_sd(h.loop, ("10.0.1.100", 30490), timings=tm)
        self.sess = [net.PeerSession() for _ in ADDRS]
        outer = self

        self.reject = set()

        class L:
            def client_subscribed(self, sub, source):
                slot = (sub.id - 1, ADDRS.index(source))
                if slot in outer.reject:
                    raise S.NakSubscription()
                outer.log.append((h.loop.time(), slot, "new"))

            def client_unsubscribed(self, sub, source):
                outer.log.append((h.loop.time(), (sub.id - 1, ADDRS.index(source)), "stopped"))

        svc = C.Service(0x2000, 1, 1, 0, eventgroups=frozenset(range(1, NKEYS + 1)))
        self.inst = S.ServiceInstance(svc, L(), self.prot.announcer, tm)

    def start(self):
        self.prot.announcer.announce_service(self.inst)
        self.prot.announcer.start()

    def _send(self, a, entries):
        fl, sid = self.sess[a].next()
        self.prot.datagram_received(net.sd_bytes(net.with_riders(entries, sid // 2), sid, reboot=fl), ADDRS[a], False)

    def refresh(self, slot, ttl):
        self._send(slot[1], [net.subscribe(0x2000, 1, 1, slot[0] + 1, ttl, o1=[_ep(ADDRS[slot[1]])])])

    def refresh_rejected(self, slot, ttl):
        self.reject.add(slot)
        try:
            self.refresh(slot, ttl)
        finally:
            self.reject.discard(slot)

    def stop(self, slot):
        self._send(slot[1], [net.subscribe(0x2000, 1, 1, slot[0] + 1, 0, o1=[_ep(ADDRS[slot[1]])])])

    def stop_all(self, a):
        self.sess[a].reboot()
        self._send(a, [])

    def lost(self):
        raise AssertionError("not generated for this driver")


DRIVERS = {"direct": Direct, "offers": Offers, "subscribes": Subscribes}


# ------------------------------------------------------------------------------- execution + oracle
RESTARTS = [0]


def execute(driver, ops, horizon, seed):
    rng = random.Random(seed)
    h = Harness(rng, max_iterations=200000)
    log = []
    drv = DRIVERS[driver](h, log)
    h.at(0.0, drv.start)
    for t, rank, op, target, ttl, _pl in ops:
        if op == "refresh":
            h.at(t, drv.refresh, target, ttl, rank=rank)
        elif op == "refresh-rejected":
            h.at(t, drv.refresh_rejected, target, ttl, rank=rank)
        elif op == "stop":
            h.at(t, drv.stop, target, rank=rank)
        elif op == "stop_all":
            h.at(t, drv.stop_all, target, rank=rank)
        else:
            h.at(t, drv.lost, rank=rank)
    n_restarts = 0
    if driver == "offers" and ops and rng.random() < 0.5:
        for k in range(rng.choice((1, 1, 2, 3))):
            t = rng.choice(ops)[0] + rng.choice((0.0, 2.0 ** -7, 0.0625, 0.3))
            if t < horizon:
                h.at(t, drv.restart, k, rank=rng.choice((BEFORE, AFTER)))
                n_restarts += 1
    RESTARTS[0] += n_restarts
    h.run(horizon)
    problems = h.problems()
    end = h.loop.time()
    h.close()
    return log, problems, end


def match(expected, got):
    """-> None or (index, description)"""
    i = 0
    for item in expected:
        if item[0] == "cb":
            _, t, kind = item
            if i >= len(got):
                return i, f"missing '{kind}' at {t!r}"
            gt, gk = got[i]
            if gk != kind:
                return i, f"expected '{kind}' at {t!r}, got '{gk}' at {gt!r}"
            if abs(gt - t) > tol(t):
                early = "early" if gt < t else "late"
                return i, f"'{kind}' {early}: expected at {t!r}, got {gt!r}"
            i += 1
        else:
            _, d, tn = item
            # either nothing, or stopped@d then new@tn
            if i + 1 < len(got) and got[i][1] == "stopped" and got[i + 1][1] == "new" and \
                    abs(got[i][0] - d) <= tol(d) and abs(got[i + 1][0] - tn) <= tol(tn):
                i += 2
            elif i < len(got) and abs(got[i][0] - d) <= tol(d) and got[i][1] == "new":
                return i, f"refresh at the deadline {d!r} reported 'new' before the expiry of its predecessor"
    if i < len(got):
        return i, f"unexpected '{got[i][1]}' at {got[i][0]!r}"
    return None


def judge(ctx, driver, ops, expected, horizon, has_inf, seed, replay):
    log, problems, end = execute(driver, ops, horizon, seed)
    ctx.count("histories")
    ctx.count("find_rounds_started_or_restarted_amid_a_history", RESTARTS[0])
    RESTARTS[0] = 0
    ctx.count("driver_" + driver)
    per = {}
    for t, slot, kind in log:
        per.setdefault(slot, []).append((t, kind))
    ok = True
    for slot, exp in expected.items():
        got = per.get(slot, [])
        m = match(exp, got)
        if m is not None:
            ok = False
            i, why = m
            mech = "ttl-callback-history-differs-from-deadline-model"
            if "before the expiry of its predecessor" in why or ("expected 'stopped'" in why and "got 'new'" in why):
                mech = "refresh-in-the-iteration-of-the-expiry-reported-out-of-order"
            elif "unexpected 'stopped'" in why:
                mech = "expiry-or-stop-reported-twice-or-after-removal"
            elif "missing 'stopped'" in why:
                mech = "expiry-never-reported"
            elif "early" in why:
                mech = "expiry-reported-early"
            elif "late" in why:
                mech = "expiry-reported-late"
            ctx.violation(mech, dict(driver=driver, slot=slot, why=why, expected=exp[max(0, i - 2):i + 3],
                                     got=got[max(0, i - 2):i + 3],
                                     ops=[(o[0], o[1], o[2], o[3], o[4], o[5]) for o in ops if o[3] in (slot, slot[1], None)][:14]),
                          replay)
            break
        ctx.count("callbacks_matched", len(got))
        for item in exp:
            if item[0] == "cb" and item[2] == "stopped":
                ctx.count("expiries_on_time")
                if item[1] > 1e6:
                    ctx.count("ttl_fffffe_expiries")
    for p in problems:
        ok = False
        ctx.violation("unexpected-exception-during-run", dict(driver=driver, problem=p), replay)
    if ok:
        for t, rank, op, target, ttl, pl in ops:
            if op == "refresh-rejected":
                ctx.count("rejected_new_entries")
            elif op == "refresh":
                k = {"d-eps": "refresh_d_minus_eps", "d:before": "refresh_at_d_before", "d:after": "refresh_at_d_after",
                     "d+eps": "refresh_d_plus_eps", "far": "refresh_far", "d-res": "refresh_within_resolution_before_d",
                     "deep": "refresh_weeks_into_a_long_ttl"}[pl]
                ctx.count(k)
            else:
                ctx.count("removed_then_no_expiry")
            if pl == "d-res":
                ctx.count("wakeups_within_resolution_before_a_deadline")
            if pl == "deep":
                ctx.count("operations_weeks_into_a_long_ttl")
        if has_inf and end > FOREVER:
            ctx.count("infinite_entries_outlived_clock")
    return ok


def shards(tier, seed):
    n = 450 if tier == "quick" else 30000
    k = 16
    return [dict(shard=i, seed=seed, n=n) for i in range(k)]


def run(spec, ctx):
    base = f"C09/{spec['seed']}/{spec['shard']}"
    for i in range(spec["n"]):
        rng = random.Random(f"{base}/{i}")
        driver = ("direct", "offers", "subscribes")[i % 3]
        ops, expected, horizon, flags, has_inf = gen_history(rng, driver)
        judge(ctx, driver, ops, expected, horizon, has_inf, f"{base}/{i}", dict(base=base, index=i))
        key = (driver, tuple((o[2], o[3] if o[2] != "lost" else None, o[4], o[5], o[1]) for o in ops))
        ctx.case(key, flags["refresh_live"],
                 sample=dict(driver=driver, ops=[dict(t=o[0], rank=o[1], op=o[2], target=o[3], ttl=o[4], placement=o[5]) for o in ops[:8]])
                 if i < 3 else None)
        for o in ops:
            ctx.note("placements", o[5])
            ctx.note("ttls", str(o[4]))


def replay(doc, ctx):
    rng = random.Random(f"{doc['base']}/{doc['index']}")
    driver = ("direct", "offers", "subscribes")[doc["index"] % 3]
    ops, expected, horizon, flags, has_inf = gen_history(rng, driver)
    judge(ctx, driver, ops, expected, horizon, has_inf, f"{doc['base']}/{doc['index']}", doc)
    ctx.case(("replay",), True)
