"""C10 - offer lifecycle: wait, repetition and cyclic phases; nothing follows a StopOffer."""
from __future__ import annotations

import itertools
import random

from pv import net, refwire
from pv.vloop import Harness, EPS, BEFORE, AFTER, RES

ID = "C10"
LEVEL = "fault_enumeration"
TECHNIQUE = ("runtime offer-timeline model vs decoded transport log and queue log of a live announcer on a virtual-time loop; "
             "stop / restart / FindService injected at every scheduled transmission instant (d-eps, ahead, behind, d+eps)")
LEVEL_TEXT = ("For a grid of timing configurations the model's scheduled transmission instants are computed and every single "
              "disturbance (announcer stop, instance stop, stop+restart, connection loss, unicast/multicast FindService, stop inside "
              "a pending answer window, double stop) is injected at every such instant in the four placement classes; random "
              "multi-instance scripts on top. Decoded Offer/StopOffer entries must match the timeline model (must / may / "
              "forbidden), no offer with TTL>0 may be queued after the StopOffer until the next start, and on the wire no live offer "
              "may leave - to anyone - after the StopOffer has left (a unicast answer still waiting in a send collector included)")
LEVEL_NOTE = ("trusts the timeline model in this module, pv/refwire.py, forced random draws (same fraction for every draw of a "
              "scenario); events closer than the clock resolution to a stop are 'either'; a non-cyclic instance stopped before its "
              "first offer may or may not send a StopOffer (the property only speaks about cyclic ones)")
TIEBREAK_VARIANTS = True  # thorough tier: some shards run equal-deadline timers LIFO / in seeded random order
RULE = (
    "configurations = initial window {[0,0],[a,a],[a,b]} x draw fraction {0,1/4,1/2,1} x repetitions 0..4 x cyclic period or none x "
    "TTL {3, infinite} x collection timeout {0, 2^-8, 2^-4 = the repetition base delay} x answer-delay window {[0,0],[c,c],[c,d]}; per configuration the scheduled "
    "instants T0..Tn of a fault-free run are computed and each disturbance kind is placed at each instant at d-eps / d ahead of "
    "the timer / d behind the timer / d+eps, plus mid-window stops; random scripts with 1-3 instances. distinct = distinct "
    "(configuration, disturbance kind, instant index, placement); non-trivial = the run contains at least one offer and one "
    "disturbance"
)
ASSUMPTIONS = ["a transmission may leave up to SEND_COLLECTION_TIMEOUT after it was decided (per-destination collectors)",
               "the delayed answer to a multicast FindService that fires after a stop+restart is not judged"]
FLOORS = {"quick": {"scenarios": 6000, "offers_matched": 30000, "stopoffers_matched": 3000, "find_answers_matched": 1500,
                    "queue_log_entries": 40000, "stops_at_instant_before": 300, "stops_at_instant_after": 300,
                    "stops_adjacent": 600, "stop_inside_answer_window": 150, "double_stop_calls": 300,
                    "simple_service_stop_announce": 100, "stop_before_first_offer": 150, "restart_scenarios": 400, "stacks_brought_up_through_create_endpoints_on_another_port": 1000,
                    "mesh_scenarios": 100, "mesh_offer_intervals_checked": 120, "mesh_stopped_intervals_checked": 24}}
# system-level shards: the mesh workload of pv/mesh.py under this property's boundary monitors (reports of other monitors are dropped)
MESH = {"want": ("offerlife",), "claim": ("mesh:offer-with-nonzero-ttl-queued-while", "mesh:stop-after-offering-queues", "mesh:stop-queues", "mesh:offer-content-differs", "mesh:live-offer-on-the-wire-after"),
        "quick": (2, 60), "thorough": (16, 1500)}

FOREVER = 0xFFFFFF
PEER = ("10.0.7.9", 30490)
PEER2 = ("10.0.7.10", 30490)
INSTS = [dict(sid=0x4001, iid=1, maj=1, minor=3, port=3001), dict(sid=0x4002, iid=2, maj=1, minor=0, port=3002),
         # the third one is the next major version of the first (same service id, same instance id): a look-alike that the
         # description-based entry points must keep apart
         dict(sid=0x4001, iid=1, maj=2, minor=9, port=3003)]
BD = 2.0 ** -4


def make_config(rng=None, idx=None):
    grid = list(itertools.product(((0.0, 0.0), (0.125, 0.125), (0.125, 0.625)), (0.0, 0.25, 0.5, 1.0), (0, 1, 2, 3, 4),
                                  (0, 0.5), (3, FOREVER), (0, 2.0 ** -8, 2.0 ** -4), ((0.0, 0.0), (2.0 ** -5, 2.0 ** -5), (2.0 ** -5, 3 * 2.0 ** -5))))
    g = grid[idx % len(grid)] if idx is not None else rng.choice(grid)
    return dict(window=g[0], f=g[1], reps=g[2], cyclic=g[3], ttl=g[4], ct=g[5], rr=g[6])


def schedule(cfg, s, until, max_cyclic=40):
    v = cfg["window"][0] + (cfg["window"][1] - cfg["window"][0]) * cfg["f"]
    t = s + v
    out = []
    i = 0
    while t <= until + RES:
        out.append(t)
        if i < cfg["reps"]:
            t = t + (2 ** i) * BD
        elif cfg["cyclic"] and len(out) < cfg["reps"] + 1 + max_cyclic:
            t = t + cfg["cyclic"]
        else:
            break
        i += 1
    return out


def schedule_from(cfg, t0, until, max_cyclic=40):
    """scheduled offers when the first one was decided at t0"""
    out, t, i = [], t0, 0
    while t <= until + RES:
        out.append(t)
        if i < cfg["reps"]:
            t = t + (2 ** i) * BD
        elif cfg["cyclic"] and len(out) < cfg["reps"] + 1 + max_cyclic:
            t = t + cfg["cyclic"]
        else:
            break
        i += 1
    return out


def answer_delay(cfg):
    return cfg["rr"][0] + (cfg["rr"][1] - cfg["rr"][0]) * cfg["f"]


# --------------------------------------------------------------------------------- expectation model
def expectations(cfg, ninst, script, horizon, first_offers):
    """script: [(t, rank, action dict)]; first_offers: {k: [queue instants of multicast offers with TTL>0]}
    -> ({k: [items]}, segments, problems)

    The property only promises the first offer *inside* the initial-delay window, so the timeline is anchored on the instant
    the first offer of each start was actually decided (taken from the queue_send boundary), which must lie in the window;
    repetitions and cyclic offers are then exact relative to it."""
    segs = {k: [] for k in range(ninst)}
    started = False
    announced = set()
    for t, rank, a in script:
        kd = a["kind"]
        if kd == "ann_start" and not started:
            started = True
            for k in sorted(announced):
                segs[k].append([t, None])
        elif kd in ("ann_stop", "ann_stop_again", "lost") and started:
            started = False
            for k in sorted(announced):
                if segs[k] and segs[k][-1][1] is None:
                    segs[k][-1][1] = t
        elif kd == "announce" and a["k"] not in announced:
            announced.add(a["k"])
            if started:
                segs[a["k"]].append([t, None])
        elif kd == "unannounce" and a["k"] in announced:
            announced.discard(a["k"])
            if started and segs[a["k"]] and segs[a["k"]][-1][1] is None:
                segs[a["k"]][-1][1] = t
    ct = cfg["ct"]
    wmin, wmax = cfg["window"]
    exp = {k: [] for k in range(ninst)}
    problems = []
    t0s = {}

    def item(k, kind, dst, lo, must, why, hi=None):
        exp[k].append(dict(kind=kind, dst=dst, lo=lo, hi=(lo if hi is None else hi) + ct, must=must, why=why, hit=0))

    for k in range(ninst):
        for n, (s, x) in enumerate(segs[k]):
            nxt = segs[k][n + 1][0] if n + 1 < len(segs[k]) else float("inf")
            end = min(x if x is not None else float("inf"), nxt)
            cands = [q for q in first_offers.get(k, []) if s - RES <= q <= end + RES and q < nxt - RES or (q <= end + RES and abs(q - s) <= RES)]
            cands = [q for q in cands if q >= s - RES]
            t0 = min(cands) if cands else None
            t0s[(k, n)] = t0
            if t0 is None:
                deadline = s + wmax
                if (x is None and deadline < horizon - ct - 4 * RES) or (x is not None and x > deadline + RES):
                    problems.append(("first-offer-missing-after-the-initial-delay-window", dict(instance=k, started=s, window=(s + wmin, s + wmax))))
                if x is not None and not cfg["cyclic"]:
                    item(k, "stop", net.MCAST, x, False, "non-cyclic instance stopped before its first offer")
                continue
            if not (s + wmin - 4 * RES <= t0 <= s + wmax + 4 * RES):
                problems.append(("first-offer-outside-the-initial-delay-window", dict(instance=k, started=s, first_offer=t0, window=(s + wmin, s + wmax))))
            T = schedule_from(cfg, t0, x if x is not None else horizon)
            definite = False
            maybe = False
            for tt in T:
                if x is None or tt < x - RES:
                    item(k, "offer", net.MCAST, tt, tt <= horizon - ct - 2 * RES, "scheduled offer")
                    definite = True
                elif abs(tt - x) <= RES:
                    item(k, "offer", net.MCAST, tt, False, "offer coincides with stop")
                    maybe = True
            if x is not None:
                if definite:
                    item(k, "stop", net.MCAST, x, True, "stop after offering")
                elif maybe or not cfg["cyclic"]:
                    item(k, "stop", net.MCAST, x, False, "stop coincides with first offer / non-cyclic before first offer")
    rmin, rmax = cfg["rr"]
    for t, rank, a in script:
        if a["kind"] != "find":
            continue
        y = t
        for k in a["targets"]:
            if k >= ninst:
                continue
            seg = None
            for n, (s, x) in enumerate(segs[k]):
                if s <= y + RES and (x is None or y <= x + RES):
                    seg = (n, s, x)
            if seg is None:
                continue
            n, s, x = seg
            t0 = t0s.get((k, n))
            if t0 is None or y < t0 - RES:
                continue  # initial wait phase: silent
            ready_must = abs(y - t0) > RES
            zlo, zhi = (y + rmin, y + rmax) if a["mc"] else (y, y)
            later_start = any(s2 > s and s2 <= zhi + RES for s2, _x2 in segs[k])
            if x is not None and x < zlo - RES:
                if later_start:
                    # stopped and started again before the answer is due: the new run may answer only once it has made its own
                    # first offer - while it is still in its initial wait the old request stays unanswered like any other
                    t0n = [t0s.get((k, n2)) for n2, (s2, _x2) in enumerate(segs[k]) if s2 > s and s2 <= zhi + RES]
                    if any(q is not None and q <= zhi + ct + RES for q in t0n):
                        item(k, "offer", a["peer"], zlo, False, "answer after stop+restart", hi=zhi)
                elif abs(x - y) <= RES:
                    item(k, "offer", a["peer"], zlo, False, "stop in the find's instant", hi=zhi)
                continue
            if x is not None and x <= zhi + RES:
                item(k, "offer", a["peer"], zlo, False, "stop inside the answer window", hi=zhi)
                continue
            item(k, "offer", a["peer"], zlo, ready_must and zhi <= horizon - ct - 2 * RES, "find answer", hi=zhi)
    return exp, segs, problems


# --------------------------------------------------------------------------------- execution
_RUNS = [0, 0]


class Run:
    def __init__(self, cfg, ninst, script, seed):
        import ipaddress
        import someip.config as C
        import someip.header as H
        import someip.sd as S

        self.cfg, self.script = cfg, script
        self.h = Harness(random.Random(seed), draw_mode=("const", cfg["f"]), max_iterations=400000)
        tm = net.timings(INITIAL_DELAY_MIN=cfg["window"][0], INITIAL_DELAY_MAX=cfg["window"][1],
                         REQUEST_RESPONSE_DELAY_MIN=cfg["rr"][0], REQUEST_RESPONSE_DELAY_MAX=cfg["rr"][1],
                         REPETITIONS_MAX=cfg["reps"], REPETITIONS_BASE_DELAY=BD, CYCLIC_OFFER_DELAY=cfg["cyclic"],
                         ANNOUNCE_TTL=cfg["ttl"], SEND_COLLECTION_TIMEOUT=cfg["ct"])
        # the TTL an instance offers with is the one in ITS timings (ServiceInstance takes its own Timings object); the
        # protocol-wide timings may say something else
        import dataclasses
        tm_proto = tm if (len(script) + ninst) % 2 else dataclasses.replace(tm, ANNOUNCE_TTL=7 if cfg["ttl"] != 7 else 9)
        self.mc = net.MCAST
        _RUNS[0] += 1
        if _RUNS[0] % 4 == 3:
            # the stack is brought up the way the tools do it: ServiceDiscoveryProtocol.create_endpoints(family, local address,
            # group, port=...) - with the socket factory replaced by recording transports, on a port of the deployment's choice;
            # the timings are assigned afterwards (the helper takes none).  "The multicast group" is then (group, that port)
            import socket

            class Stack(S.ServiceDiscoveryProtocol):
                @classmethod
                async def _create_endpoint(cls, loop, prot, family, local_addr, port, multicast_addr=None,
                                           multicast_interface=None, ttl=1):
                    return net.RecTransport(loop, (multicast_addr or local_addr, port))

            self.mc = (net.MCAST[0], 30517)
            self.tr, _tr_m, self.prot = self.h.loop.run_until_complete(
                Stack.create_endpoints(socket.AF_INET, "10.0.7.1", self.mc[0], port=self.mc[1], loop=self.h.loop))
            for f in dataclasses.fields(tm_proto):
                setattr(self.prot.timings, f.name, getattr(tm_proto, f.name))
            self.via_helper = True
        else:
            self.via_helper = False
            self.prot, self.tr = net.make_sd(self.h.loop, ("10.0.7.1", 30490), timings=tm_proto)
        self.insts = []
        self.ref_opts = []
        import zlib
        # the options are part of what an offer must carry: the same ids are configured with different endpoints (port,
        # UDP / TCP, a second option run) from scenario to scenario, so an offer built for an earlier, equal-looking
        # service description of this process would show
        variant = zlib.crc32(repr((sorted(cfg.items(), key=str), [(t, r, sorted(a.items(), key=str)) for t, r, a in script])).encode())
        self.ref_opts2 = []
        for i in range(ninst):
            c = INSTS[i]
            v = (variant >> (4 * i)) & 15
            port = c["port"] + 10 * (v & 3)
            proto = (H.L4Protocols.UDP, H.L4Protocols.TCP)[(v >> 2) & 1]
            opt = H.IPv4EndpointOption(address=ipaddress.IPv4Address("10.0.7.1"), l4proto=proto, port=port)
            o2, r2 = (), []
            if v & 8:
                o2 = (H.SOMEIPSDLoadBalancingOption(priority=1 + (v & 3), weight=7),)
                r2 = [refwire.opt_loadbal(1 + (v & 3), 7)]
            run1, ref1 = (opt,), [refwire.ep4("10.0.7.1", port, proto=int(proto))]
            if ninst > 1 and (variant >> 13) & 3 == 0:
                # a family of instances behind one endpoint: each first run starts with the same option and extends the run of
                # the instance before it (offers collected into one message share one option array)
                common = H.IPv4EndpointOption(address=ipaddress.IPv4Address("10.0.7.1"), l4proto=H.L4Protocols.UDP, port=3999)
                run1 = (common,) + tuple(H.IPv4EndpointOption(address=ipaddress.IPv4Address("10.0.7.1"), l4proto=H.L4Protocols.TCP,
                                                              port=4000 + j) for j in range(i))
                ref1 = [refwire.ep4("10.0.7.1", 3999)] + [refwire.ep4("10.0.7.1", 4000 + j, proto=6) for j in range(i)]
            svc = C.Service(c["sid"], c["iid"], c["maj"], c["minor"], options_1=run1, options_2=o2, eventgroups=frozenset({1}))
            # the instance's Timings object is either complete when the instance is built, or - as applications that get their
            # objects from helpers do - filled in afterwards by assigning its fields before anything is started
            if (variant >> 17) & 1:
                import dataclasses as _dc
                itm = _dc.replace(tm, ANNOUNCE_TTL=5 if cfg["ttl"] != 5 else 6)
                self.insts.append(S.ServiceInstance(svc, S.ServerServiceListener(), self.prot.announcer, itm))
                itm.ANNOUNCE_TTL = cfg["ttl"]
            else:
                self.insts.append(S.ServiceInstance(svc, S.ServerServiceListener(), self.prot.announcer, tm))
            self.ref_opts.append(ref1)
            self.ref_opts2.append(r2)
        self.qlog = []  # ('q', seq, t, sid, iid, ttl, remote) | ('start', k) | ('ann_start',)
        self.raised = []
        ann = self.prot.announcer
        orig = ann.queue_send

        def queue_send(entry, remote=None):
            self.qlog.append(("q", self.h.loop.time(), entry.service_id, entry.instance_id, entry.ttl, remote,
                              int(entry.sd_type), entry.major_version))
            return orig(entry, remote=remote)

        ann.queue_send = queue_send
        self.sess = net.PeerSession()
        self.stats = dict(double_stop_calls=0)

    def do(self, a):
        ann = self.prot.announcer
        k = a["kind"]
        try:
            if k == "ann_start":
                self.qlog.append(("ann_start", self.h.loop.time()))
                ann.start()
            elif k == "ann_stop":
                # the announcer was started by itself; shutting down goes through it or, every third time, through the whole
                # stack's stop()
                _RUNS[1] += 1
                if _RUNS[1] % 3 == 2:
                    self.prot.stop()
                    self.stats["announcer_stopped_through_the_stack"] = self.stats.get("announcer_stopped_through_the_stack", 0) + 1
                else:
                    ann.stop()
            elif k == "ann_stop_again":
                self.stats["double_stop_calls"] += 1
                ann.stop()
            elif k == "announce":
                self.qlog.append(("start", a["k"], self.h.loop.time()))
                ann.announce_service(self.insts[a["k"]])
            elif k == "unannounce":
                # by instance object, or - as SimpleService.stop_announce does - by its description
                self.stats["unannounce_calls"] = self.stats.get("unannounce_calls", 0) + 1
                inst = self.insts[a["k"]]
                ann.stop_announce_service(inst.service if self.stats["unannounce_calls"] % 2 else inst)
            elif k == "lost":
                self.prot.connection_lost(None)
            elif k == "set_ttl":
                for inst in self.insts:
                    inst.timings.ANNOUNCE_TTL = a["ttl"]
                self.ttl_change = (self.h.loop.time(), a["ttl"])
            elif k == "find":
                fl, sid = self.sess.next(a["peer"])
                data = net.sd_bytes([net.find(*a["entry"])], sid, reboot=fl)
                self.prot.datagram_received(data, a["peer"], a["mc"])
        except Exception as exc:
            self.raised.append((self.h.loop.time(), k, repr(exc)))

    def execute(self, horizon):
        for t, rank, a in self.script:
            self.h.at(t, self.do, a, rank=rank)
        self.h.run(horizon)
        problems = self.h.problems()
        sent = None
        try:
            sent = net.decode_sent(self.tr.sent)
            for m in sent:
                # (the model speaks of net.MCAST: translate the configured group address, and keep any other one apart)
                if m["dst"] == self.mc:
                    m["dst"] = net.MCAST
                elif m["dst"] == net.MCAST:
                    m["dst"] = ("not-the-configured-group-address",) + tuple(net.MCAST)
        except refwire.RefError as exc:
            problems.append(("undecodable-transmission", repr(exc)))
        self.h.close()
        return sent, problems


def judge(ctx, cfg, ninst, script, horizon, seed, replay, tags=()):
    run = Run(cfg, ninst, script, seed)
    sent, problems = run.execute(horizon)
    if run.via_helper:
        ctx.count("stacks_brought_up_through_create_endpoints_on_another_port")
    ids0 = {(INSTS[k]["sid"], INSTS[k]["iid"], INSTS[k]["maj"]): k for k in range(ninst)}
    first_offers = {}
    for q in run.qlog:
        if q[0] == "q" and q[6] == 1 and q[4] > 0 and q[5] is None and (q[2], q[3], q[7]) in ids0:
            first_offers.setdefault(ids0[(q[2], q[3], q[7])], []).append(q[1])
    if not any(q[0] == "q" for q in run.qlog) and sent:
        # the queue_send boundary was not on the path: fall back to the wire instants (the collection timeout is slack)
        for m in sent:
            for e in m["entries"]:
                if e["type"] == 1 and e["ttl"] > 0 and m["dst"] == net.MCAST and (e["sid"], e["iid"], e["maj"]) in ids0:
                    first_offers.setdefault(ids0[(e["sid"], e["iid"], e["maj"])], []).append(m["t"] - cfg["ct"])
    exp, segs, model_problems = expectations(cfg, ninst, script, horizon, first_offers)
    ctx.count("scenarios")
    ctx.count("queue_log_entries", sum(1 for q in run.qlog if q[0] == "q"))
    ctx.count("double_stop_calls", run.stats["double_stop_calls"])
    ctx.count("announcer_stopped_through_the_stack", run.stats.get("announcer_stopped_through_the_stack", 0))
    for tg in tags:
        ctx.count(tg)
    brief = [(t, rank, {k: v for k, v in a.items()}) for t, rank, a in script][:10]

    def bad(mech, **detail):
        detail.update(config=cfg, script=brief)
        ctx.violation(mech, detail, replay)

    for t, k, e in run.raised:
        if k in ("ann_stop", "ann_stop_again", "lost"):
            bad("stopping-a-stopped-announcer-raises", t=t, call=k, exc=e)
        else:
            bad("lifecycle-call-raises", t=t, call=k, exc=e)
    for p in problems:
        if p[0] == "loop_exception_handler" and "already stopped" in str(p):
            bad("stopping-a-stopped-announcer-raises", problem=p)
        else:
            bad("unexpected-exception-during-run", problem=p)
    if sent is None:
        return
    for mech, detail in model_problems:
        bad(mech, **detail)
    ids = {(INSTS[k]["sid"], INSTS[k]["iid"], INSTS[k]["maj"]): k for k in range(ninst)}
    tol = 4 * RES
    # ---- wire monitor: every Offer entry must be explained by the timeline, every 'must' must appear.
    # Windows may overlap (collection slack, answer windows), so this is a bipartite matching problem: by the
    # Mendelsohn-Dulmage theorem a matching that covers all observations AND all 'must' items exists iff one exists for
    # each side separately, so the two sides are checked (and reported) separately.
    obs = {k: [] for k in range(ninst)}
    for msg in sorted(sent, key=lambda m: m["t"]):
        for e in msg["entries"]:
            if e["type"] != 1:
                bad("announcer-sent-a-non-offer-entry", entry=e, t=msg["t"])
                continue
            k = ids.get((e["sid"], e["iid"], e["maj"]))
            if k is None:
                bad("offer-for-unknown-instance", entry=e)
                continue
            c = INSTS[k]
            kind = "stop" if e["ttl"] == 0 else "offer"
            chg = getattr(run, "ttl_change", None)
            want_ttl = chg[1] if chg is not None and msg["t"] >= chg[0] else cfg["ttl"]
            if e["maj"] != c["maj"] or e["val"] != c["minor"] or (kind == "offer" and (e["ttl"] != want_ttl or e["o1"] != run.ref_opts[k] or e["o2"] != run.ref_opts2[k])):
                bad("offer-content-differs-from-configuration", instance=k, entry=e, t=msg["t"])
            obs[k].append(dict(t=msg["t"], kind=kind, dst=msg["dst"], ttl=e["ttl"]))

    # ---- wire order: once an instance's StopOffer has left, no live offer for it leaves - to anyone - until it is started again
    # (an answer to a FindService that was still waiting in a unicast send collector has to leave before the StopOffer)
    for k in range(ninst):
        stop_t = None
        for o in obs[k]:
            if o["kind"] == "stop":
                stop_t = o["t"]
                ctx.count("stopoffers_followed_on_the_wire")
            elif stop_t is not None:
                if any(stop_t - cfg["ct"] - tol <= s <= o["t"] + tol for s, _x in segs[k] if s is not None):
                    stop_t = None  # started again meanwhile
                    continue
                bad("live-offer-on-the-wire-after-the-stopoffer", instance=k, stopoffer_sent_at=stop_t, offer_sent_at=o["t"], dst=o["dst"])
                break

    def fits(o, it):
        return it["kind"] == o["kind"] and it["dst"] == o["dst"] and it["lo"] - tol <= o["t"] <= it["hi"] + tol

    def saturate(left, right, edge):
        """Kuhn's augmenting paths; returns the indices of `left` that cannot be matched"""
        match_r = {}

        def try_(u, seen):
            for v in range(len(right)):
                if v in seen or not edge(left[u], right[v]):
                    continue
                seen.add(v)
                if v not in match_r or try_(match_r[v], seen):
                    match_r[v] = u
                    return True
            return False

        return [u for u in range(len(left)) if not try_(u, set())]

    for k in range(ninst):
        items = exp[k]
        unexplained = saturate(obs[k], items, fits)
        for u in unexplained[:3]:
            o = obs[k][u]
            stops = [x for s, x in segs[k] if x is not None and x <= o["t"] + tol]
            starts_after = [s for s, x in segs[k] if stops and s > max(stops) and s <= o["t"] + tol]
            if o["kind"] == "offer" and stops and not starts_after:
                mech = "offer-with-nonzero-ttl-after-stopoffer"
            elif o["kind"] == "stop":
                mech = "unexpected-or-duplicate-stopoffer"
            elif o["dst"] != net.MCAST and o["dst"] not in (PEER, PEER2):
                mech = "offer-sent-to-wrong-destination"
            elif o["dst"] == net.MCAST:
                mech = "offer-off-schedule"
            else:
                mech = "unexpected-find-answer"
            near = sorted(items, key=lambda it: abs(it["lo"] - o["t"]))[:3]
            bad(mech, instance=k, t=o["t"], dst=o["dst"], ttl=o["ttl"],
                nearest_expected=[(it["kind"], it["dst"], it["lo"], it["hi"], it["must"], it["why"]) for it in near])
        musts = [it for it in items if it["must"]]
        missing = saturate(musts, obs[k], lambda it, o: fits(o, it))
        for u in missing[:3]:
            it = musts[u]
            mech = {"offer": "scheduled-offer-or-answer-missing", "stop": "stopoffer-missing"}[it["kind"]]
            bad(mech, instance=k, expected=(it["kind"], it["dst"], it["lo"], it["hi"], it["why"]),
                observed=[(o["t"], o["dst"], o["kind"]) for o in obs[k]][:14])
        n_unexpl = set(unexplained)
        for u, o in enumerate(obs[k]):
            if u not in n_unexpl:
                ctx.count("offers_matched" if o["kind"] == "offer" and o["dst"] == net.MCAST else
                          "stopoffers_matched" if o["kind"] == "stop" else "find_answers_matched")
    # ---- queue-order monitor: after a StopOffer is queued, no offer with TTL>0 until the next start
    stopped = {}
    started_at = {}
    for q in run.qlog:
        if q[0] == "ann_start":
            stopped.clear()
            for k in range(ninst):
                started_at[k] = q[1]
        elif q[0] == "start":
            stopped.pop(q[1], None)
            started_at[q[1]] = q[2]
        else:
            _, t, sid, iid, ttl, remote, typ, maj = q
            k = ids.get((sid, iid, maj))
            if k is None or typ != 1:
                continue
            if ttl == 0:
                if abs(started_at.get(k, -1.0) - t) <= RES:
                    # stop and restart in one instant: a cyclic instance's StopOffer is emitted
                    # when its cancelled task runs, i.e. after the restart call returned
                    continue
                if k in stopped:
                    bad("stopoffer-queued-twice", instance=k, t=t)
                stopped[k] = t
            elif k in stopped:
                bad("offer-with-nonzero-ttl-after-stopoffer", instance=k, t=t, remote=remote, stopoffer_queued_at=stopped[k],
                    monitor="queue order")
    return


# --------------------------------------------------------------------------------- scenario construction
def placed(T, pl):
    # d-res: less than one clock resolution ahead of T - the loop runs the timer that is due at T in that very iteration
    return {"d-eps": (T - EPS, BEFORE), "d:before": (T, BEFORE), "d:after": (T, AFTER), "d+eps": (T + EPS, BEFORE),
            "d-res": (T - RES / 2, BEFORE)}[pl]


PLACEMENTS = ("d-eps", "d:before", "d:after", "d+eps", "d-res")
KINDS = ("ann_stop", "unannounce", "stop_restart", "find_uc", "find_mc", "find_mc_then_stop", "find_uc_and_stop", "stop_and_find_uc",
         "stop_then_find", "lost_then_stop", "double_stop", "find_wild_mc", "late_stop", "find_uc_then_stop_in_window",
         "find_mc_then_stop_restart")


def find_action(k, mc, peer=PEER, wild=False):
    c = INSTS[k]
    if wild:
        return dict(kind="find", peer=peer, mc=mc, entry=(c["sid"], 0xFFFF, 0xFF, 0xFFFFFFFF), targets=[j for j in range(3) if INSTS[j]["sid"] == c["sid"]])
    return dict(kind="find", peer=peer, mc=mc, entry=(c["sid"], c["iid"], c["maj"], c["minor"]), targets=[k])


def single_scenario(cfg, kind, j, pl):
    """one instance; disturbance `kind` at scheduled instant index j with placement pl"""
    s0 = 0.25
    script = [(0.0, BEFORE, dict(kind="announce", k=0)), (s0, BEFORE, dict(kind="ann_start"))]
    T = schedule(cfg, s0, s0 + 8.0, max_cyclic=4)
    if j == -1:
        v = T[0] - s0
        t, rank = (s0 + v / 2, BEFORE) if v > 0 else (s0, AFTER)
        tags = ["stop_before_first_offer"] if kind in ("ann_stop", "unannounce", "lost_then_stop") and v > 0 else []
    else:
        if j >= len(T):
            return None
        t, rank = placed(T[j], pl)
        tags = []
        if t <= s0:
            return None  # would precede the start itself
    d = answer_delay(cfg)
    if kind in ("ann_stop", "unannounce", "stop_restart", "lost_then_stop", "double_stop", "stop_then_find") and j >= 0:
        tags.append({"d-eps": "stops_adjacent", "d+eps": "stops_adjacent", "d:before": "stops_at_instant_before",
                     "d:after": "stops_at_instant_after", "d-res": "stops_within_resolution_before_instant"}[pl])
    if kind == "ann_stop":
        script.append((t, rank, dict(kind="ann_stop")))
    elif kind == "late_stop":
        # stopped long after the transmission at T[j]: more than one (finite) TTL later, when every receiver has already
        # let the offer run out - the StopOffer is owed all the same
        late = t + (cfg["ttl"] if cfg["ttl"] != FOREVER else 3) + 1.0 + 2.0 ** -7
        script.append((late, BEFORE, dict(kind=("ann_stop", "unannounce")[j % 2], **({"k": 0} if j % 2 else {}))))
        tags.append("stops_later_than_one_ttl_after_an_offer")
    elif kind == "unannounce":
        script.append((t, rank, dict(kind="unannounce", k=0)))
    elif kind == "stop_restart":
        script.append((t, rank, dict(kind="ann_stop")))
        if j % 2:
            # while everything is stopped the application reconfigures the TTL its instances offer with (assigning the field of
            # their Timings): the next run offers - and answers - with the new value
            script.append((t + 0.1875, BEFORE, dict(kind="set_ttl", ttl=(cfg["ttl"] + 1) if cfg["ttl"] < 0xFFFFF0 else 0xFFFFFE)))
            tags.append("ttl_reconfigured_between_two_runs")
        script.append((t + 0.375, BEFORE, dict(kind="ann_start")))
        tags.append("restart_scenarios")
    elif kind == "find_uc":
        script.append((t, rank, find_action(0, False)))
    elif kind == "find_mc":
        script.append((t, rank, find_action(0, True)))
    elif kind == "find_wild_mc":
        script.append((t, rank, find_action(0, True, wild=True)))
    elif kind == "find_mc_then_stop":
        script.append((t, rank, find_action(0, True)))
        if d > 0:
            script.append((t + d / 2, BEFORE, dict(kind="ann_stop")))
            tags.append("stop_inside_answer_window")
        else:
            script.append((t, rank, dict(kind="ann_stop")))
    elif kind == "find_uc_and_stop":
        script.append((t, rank, find_action(0, False)))
        script.append((t, rank, dict(kind="unannounce", k=0)))
    elif kind == "find_mc_then_stop_restart":
        # the delayed answer to a multicast request is still pending when the instance is stopped AND started again: when it
        # falls due the new run is (for most configurations) still in its initial wait and must stay silent
        if d <= 0:
            return None
        script.append((t, rank, find_action(0, True)))
        if j % 2:
            script.append((t + d / 4, BEFORE, dict(kind="unannounce", k=0)))
            script.append((t + d / 2, BEFORE, dict(kind="announce", k=0)))
        else:
            script.append((t + d / 4, BEFORE, dict(kind="ann_stop")))
            script.append((t + d / 2, BEFORE, dict(kind="ann_start")))
        tags.append("restart_inside_answer_window")
    elif kind == "find_uc_then_stop_in_window":
        # the answer is already waiting in the requester's send collector when the instance is stopped half a collection
        # window later: it still has to leave - ahead of the StopOffer, which may ride a multicast window that closes sooner
        if not cfg["ct"]:
            return None
        script.append((t, rank, find_action(0, False)))
        script.append((t + cfg["ct"] / 2, BEFORE, dict(kind=("ann_stop", "unannounce")[j % 2], **({"k": 0} if j % 2 else {}))))
        tags.append("stop_while_an_answer_waits_in_the_send_collector")
    elif kind == "stop_and_find_uc":
        script.append((t, rank, dict(kind="ann_stop")))
        script.append((t, rank, find_action(0, False)))
    elif kind == "stop_then_find":
        script.append((t, rank, dict(kind="ann_stop")))
        script.append((t + 0.125, BEFORE, find_action(0, False)))
        script.append((t + 0.25, BEFORE, find_action(0, True, PEER2)))
    elif kind == "lost_then_stop":
        script.append((t, rank, dict(kind="lost")))
        script.append((t + 0.25, BEFORE, dict(kind="ann_stop_again")))
    elif kind == "double_stop":
        script.append((t, rank, dict(kind="ann_stop")))
        script.append((t, rank, dict(kind="ann_stop_again")))
        script.append((t + 0.5, BEFORE, dict(kind="ann_stop_again")))
    script.sort(key=lambda x: (x[0], x[1]))
    return script, max(x[0] for x in script) + 2.5, tags


def random_scenario(rng):
    cfg = make_config(rng)
    ninst = rng.randrange(1, 4)
    script = []
    t = 0.0
    started = False
    announced = set()
    for k in range(ninst):
        if rng.random() < 0.7:
            script.append((0.0, BEFORE, dict(kind="announce", k=k)))
            announced.add(k)
    lost = False
    for _ in range(rng.randrange(2, 12)):
        t += rng.choice((0.0, 2.0 ** -5, 2.0 ** -4, 0.125, 0.25, 0.5, 1.0))
        r = rng.random()
        if lost:
            break
        if r < 0.2:
            if started:
                script.append((t, BEFORE, dict(kind="ann_stop")))
                started = False
            else:
                script.append((t, BEFORE, dict(kind="ann_start")))
                started = True
        elif r < 0.4:
            k = rng.randrange(ninst)
            if k in announced:
                script.append((t, BEFORE, dict(kind="unannounce", k=k)))
                announced.discard(k)
            else:
                script.append((t, BEFORE, dict(kind="announce", k=k)))
                announced.add(k)
        elif r < 0.45 and not started:
            script.append((t, BEFORE, dict(kind="ann_stop_again")))
        elif r < 0.5 and started:
            script.append((t, BEFORE, dict(kind="lost")))
            started = False
            lost = True
        else:
            k = rng.randrange(ninst)
            script.append((t, BEFORE, find_action(k, rng.random() < 0.5, rng.choice((PEER, PEER2)), wild=rng.random() < 0.3)))
            script[-1][2]["targets"] = [j for j in script[-1][2]["targets"] if j < ninst]
    return cfg, ninst, script, t + 3.0


def simple_service_probe(ctx, seed, cfg, replay):
    """SimpleService.start_announce followed by stop_announce must succeed and withdraw the offer"""
    import someip.service as SV

    h = Harness(random.Random(seed), draw_mode=("const", 0.0))
    tm = net.timings(INITIAL_DELAY_MIN=0, INITIAL_DELAY_MAX=0, REPETITIONS_MAX=1, REPETITIONS_BASE_DELAY=BD,
                     CYCLIC_OFFER_DELAY=cfg["cyclic"], ANNOUNCE_TTL=3, SEND_COLLECTION_TIMEOUT=cfg["ct"])
    prot, tr = net.make_sd(h.loop, ("10.0.7.1", 30490), timings=tm)

    class Svc(SV.SimpleService):
        service_id = 0x4444
        version_major = 1
        version_minor = 2

    res = dict(raised=[])

    def setup():
        s = Svc(instance_id=5)
        s.transport = net.RecTransport(h.loop, ("10.0.7.1", 30509))
        res["s"] = s
        prot.announcer.start()
        try:
            s.start_announce(prot.announcer)
        except Exception as exc:
            res["raised"].append(("start_announce", repr(exc)))

    def stop():
        try:
            res["s"].stop_announce(prot.announcer)
        except Exception as exc:
            res["raised"].append(("stop_announce", repr(exc)))

    h.at(0.25, setup)
    h.at(1.0, stop)
    h.run(4.0)
    ctx.count("simple_service_stop_announce")
    sent = net.decode_sent(tr.sent)
    problems = h.problems()
    h.close()
    for call, e in res["raised"]:
        ctx.violation("simple-service-stop_announce-raises", dict(call=call, exc=e), replay)
    offers = [(m["t"], e["ttl"]) for m in sent for e in m["entries"] if e["type"] == 1 and e["sid"] == 0x4444]
    if not res["raised"]:
        live_after = [o for o in offers if o[0] > 1.0 + cfg["ct"] + 4 * RES and o[1] > 0]
        nstop = sum(1 for o in offers if o[1] == 0)
        if live_after or nstop != 1 or not any(o[1] > 0 for o in offers):
            ctx.violation("simple-service-stop_announce-does-not-withdraw-the-offer", dict(offers=offers), replay)
    for p in problems:
        ctx.violation("unexpected-exception-during-run", dict(problem=p, probe="simple service"), replay)


def shards(tier, seed):
    n = 16
    if tier == "quick":
        return [dict(shard=i, nshards=n, seed=seed, nconfigs=10, random=150) for i in range(n)]
    return [dict(shard=i, nshards=n, seed=seed, nconfigs=220, random=12000) for i in range(n)]


def run(spec, ctx):
    rng = random.Random(f"C10/{spec['seed']}/{spec['shard']}")
    first = True
    # fault enumeration over a slice of the configuration grid
    for ci in range(spec["nconfigs"]):
        idx = rng.randrange(10 ** 6)
        cfg = make_config(idx=idx)
        nT = cfg["reps"] + 1 + (3 if cfg["cyclic"] else 0)
        for kind in KINDS:
            for j in range(-1, nT):
                for pl in (PLACEMENTS if j >= 0 else ("d:before",)):
                    sc = single_scenario(cfg, kind, j, pl)
                    if sc is None:
                        continue
                    script, horizon, tags = sc
                    judge(ctx, cfg, 1, script, horizon, "s", dict(kind="single", cfg_idx=idx, dist=kind, j=j, pl=pl), tags)
                    ctx.case(("single", idx % 8640, kind, j, pl), True,
                             sample=dict(config=cfg, disturbance=kind, instant_index=j, placement=pl,
                                         script=[(t, r, a) for t, r, a in script]) if first and kind == "find_mc_then_stop" and j == 1 else None)
                    if kind == "find_mc_then_stop" and j == 1:
                        first = False
                    ctx.note("disturbance_kinds", kind)
        simple_service_probe(ctx, "p", cfg, dict(kind="probe", cfg_idx=idx))
    for i in range(spec["random"]):
        r2 = random.Random(f"C10r/{spec['seed']}/{spec['shard']}/{i}")
        cfg, ninst, script, horizon = random_scenario(r2)
        judge(ctx, cfg, ninst, script, horizon, "r", dict(kind="random", seed=f"C10r/{spec['seed']}/{spec['shard']}/{i}"), ["random_scripts"])
        ctx.case(("random", tuple(sorted(cfg.items(), key=str)), ninst, tuple((t, a["kind"]) for t, _r, a in script)), len(script) > 2)


def replay(doc, ctx):
    if doc["kind"] == "single":
        cfg = make_config(idx=doc["cfg_idx"])
        script, horizon, tags = single_scenario(cfg, doc["dist"], doc["j"], doc["pl"])
        judge(ctx, cfg, 1, script, horizon, "s", doc, tags)
    elif doc["kind"] == "probe":
        simple_service_probe(ctx, "p", make_config(idx=doc["cfg_idx"]), doc)
    else:
        cfg, ninst, script, horizon = random_scenario(random.Random(doc["seed"]))
        judge(ctx, cfg, ninst, script, horizon, "r", doc, [])
    ctx.case(("replay",), True)
