"""C08 - outgoing session ids count 1..0xFFFF per destination; reboot flag clears on wrap."""
from __future__ import annotations

import asyncio
import random
import sys
import threading

from pv import net, refwire
from pv.vloop import Harness

ID = "C08"
LEVEL = "exploration"
EXHAUSTIVE = True
TECHNIQUE = "runtime per-destination session-id/reboot-flag model over the decoded transport log (send_sd, announcer queue, event notifications); GIL-preemption stress of the id allocator"
LEVEL_TEXT = ("One destination is walked through the complete 2 x 65535-state cycle (exhaustive for that cycle); several "
              "destinations are interleaved by random block schedules so that each wraps at a different moment, with empty "
              "sends sprinkled in; the announcer queue path and the event-notification path (several subscribers, several "
              "events per datagram) are wrapped as well. Interleavings are sampled")
LEVEL_NOTE = "trusts pv/refwire.py for decoding; the thread stress (thorough) drives the only documented multi-threaded entry, the id allocator under its own lock"
RULE = (
    "full cycle: 2*65535+70 sends to one destination; interleaved: 3-5 destinations (multicast default + unicast peers), "
    "random block lengths 1..3000, 10% empty sends, until every destination has wrapped; announcer path with collection "
    "timeout 0 and >0; notification path: SimpleEventgroup with 2-4 subscribers, 1-3 events per round, > 65535 "
    "notifications per destination. distinct = distinct (path, destination-count, block-schedule hash); non-trivial = run "
    "crossed at least one wrap-around"
)
ASSUMPTIONS = ["model: ids 1..0xFFFF repeating per destination; reboot flag set exactly on datagrams before the first wrap",
               "the default (multicast) destination is always addressed with remote=None, as the library itself does"]
FLOORS = {"quick": {"datagrams_decoded": 400000, "wraps_observed": 8, "empty_sends": 1000, "full_cycle_walks": 1,
                    "notification_wraps": 6, "notification_wraps_inside_a_datagram": 4, "announcer_path_datagrams": 1000, "destinations_checked": 12, "churn_notifications_checked": 3000, "crowd_destinations": 4000, "answer_path_datagrams": 3000, "find_and_subscribe_of_one_peer_in_one_iteration": 2000,
                    "mesh_scenarios": 100, "mesh_session_ids_checked": 4800}}
# system-level shards: the mesh workload of pv/mesh.py under this property's boundary monitors (reports of other monitors are dropped)
MESH = {"want": ("wire",), "claim": ("mesh:session-id", "mesh:reboot-flag-wrong", "mesh:empty-sd-message"),
        "quick": (2, 60), "thorough": (16, 1500)}


class IdModel:
    def __init__(self):
        self.next = {}
        self.wrapped = {}

    def expect(self, dst):
        sid = self.next.get(dst, 1)
        flag = not self.wrapped.get(dst, False)
        if sid >= 0xFFFF:
            self.next[dst] = 1
            self.wrapped[dst] = True
        else:
            self.next[dst] = sid + 1
        return flag, sid


def judge_sd_log(ctx, sent, model, replay, path):
    """sent: RecTransport log; every datagram must hold exactly one SD message"""
    bad = 0
    for t, it, data, dst in sent:
        ctx.count("datagrams_decoded")
        try:
            msgs = refwire.parse_sd_datagram(data)
        except refwire.RefError as exc:
            ctx.violation("transmitted-bytes-not-a-wellformed-sd-message", dict(path=path, err=repr(exc), data=data[:64]), replay)
            return
        for sd in msgs:
            flag, sid = model.expect(dst)
            if sid == 0xFFFF:
                ctx.count("wraps_observed")
            gflag = bool(sd["flags"] & 0x80)
            if sd["sess"] != sid:
                mech = "session-id-zero-sent" if sd["sess"] == 0 else "session-id-gap-or-repeat"
                ctx.violation(mech, dict(path=path, dst=dst, expected=sid, got=sd["sess"]), replay)
                bad += 1
            elif gflag != flag:
                ctx.violation("reboot-flag-wrong-relative-to-first-wrap",
                              dict(path=path, dst=dst, session=sid, expected_flag=flag, got_flag=gflag), replay)
                bad += 1
            if not sd["entries"]:
                ctx.violation("sd-message-without-entries-transmitted", dict(path=path, dst=dst), replay)
                bad += 1
            if bad > 3:
                return


def some_entry(H, i=0):
    return H.SOMEIPSDEntry(sd_type=H.SOMEIPSDEntryType.OfferService, service_id=0x1000 + (i & 0xFFF), instance_id=1,
                           major_version=1, ttl=3, minver_or_counter=0)


def walk_direct(ctx, spec, rng):
    """send_sd directly, block schedule over several destinations"""
    import someip.header as H

    h = Harness(rng)
    prot, tr = net.make_sd(h.loop)
    ndst = spec["ndst"]
    dsts = [None] + [(f"10.9.0.{(i + 1) // 2}", 30490 + i % 2) for i in range(1, ndst)]  # pairs share a host
    if ndst >= 4:
        # two destinations that differ in the IPv6 scope id only (one link-local address behind two interfaces)
        dsts[-2:] = [("fe80::9", 30490, 0, 2), ("fe80::9", 30490, 0, 3)]
        ctx.count("walks_with_scope_id_siblings")
    target = spec["per_dst"]
    counts = {d: 0 for d in dsts}
    sched = []
    e = [some_entry(H)]
    many = [some_entry(H, i) for i in range(40)]  # one send_sd call with many entries is one message with one id
    # the same entry in the form a relay gets from the decoder: it carries option indexes (0 of them) instead of resolved options
    wire = H.SOMEIPSDHeader(entries=(some_entry(H),)).assign_option_indexes().build()
    e_parsed = list(H.SOMEIPSDHeader.parse(bytes(wire))[0].entries)

    # one unicast destination is contacted for the very first time only after another destination (in half of the walks: the
    # multicast group) has wrapped: its ids still start at 1 with the reboot flag set
    late = dsts[1] if ndst >= 3 else None
    targets = {d: target for d in dsts}
    if late is not None:
        targets[late] = 400
        ctx.count("destinations_first_contacted_after_another_one_wrapped")
    mc_first = rng.random() < 0.5

    def body():
        if spec.get("crowd"):
            # a few messages to every regular destination, then one message each to very many others (all first contacts),
            # then the regular walk goes on: every destination still has its own counter
            for d in dsts:
                for _ in range(5):
                    prot.send_sd(e, remote=d)
                    counts[d] += 1
            for i in range(spec["crowd"]):
                prot.send_sd(e, remote=(f"10.{8 + (i >> 16)}.{i >> 8 & 255}.{i & 255}", 30490) if i % 3 else (f"2001:db8:8::{(i + 1) >> 16:x}:{(i + 1) & 0xFFFF:x}", 30490, 0, 0))
            ctx.count("crowd_destinations", spec["crowd"])
        while any(counts[d] < targets[d] for d in dsts):
            wrapped = max(counts.values()) > 0xFFFF + 5
            open_ = [d for d in dsts if counts[d] < targets[d] and not (late is not None and d == late and not wrapped)]
            if mc_first and late is not None and not wrapped and counts[None] < targets[None]:
                open_ = [None]  # drive the multicast group through its wrap first
            d = rng.choice(open_)
            target = targets[d]
            blk = min(rng.choice((1, 2, 7, 100, 1000, 3000)) if ndst > 1 else target, target - counts[d])
            sched.append((dsts.index(d), blk))
            for _ in range(blk):
                if ndst > 1 and rng.random() < 0.1:
                    before = len(tr.sent)
                    prot.send_sd([], remote=d)
                    prot.send_sd((), remote=d)
                    ctx.count("empty_sends", 2)
                    if len(tr.sent) != before:
                        ctx.violation("empty-send-transmitted", dict(dst=d), dict(spec=spec))
                near_wrap = 0xFFFF - 400 <= (counts[d] % 0xFFFF) + 1 <= 0xFFFF
                if (near_wrap and ndst > 1 and rng.random() < 0.5) or rng.random() < 0.002:
                    prot.send_sd(many[: rng.choice((2, 16, 22, 30, 40))], remote=d)
                    ctx.count("sends_with_many_entries")
                elif ndst > 1 and rng.random() < 0.04:
                    prot.send_sd(e_parsed, remote=d)
                    ctx.count("sends_of_entries_that_carry_option_indexes")
                else:
                    prot.send_sd(e, remote=d)
                counts[d] += 1

    h.at(0.0, body)
    h.run(1.0)
    model = IdModel()
    # an empty send must not consume an id either: the model simply never sees one
    judge_sd_log(ctx, tr.sent, model, dict(spec=spec), "send_sd")
    ctx.count("destinations_checked", ndst)
    if ndst == 1:
        ctx.count("full_cycle_walks")
    bad = h.problems()
    h.close()
    for b in bad:
        ctx.violation("unexpected-exception-during-run", b, dict(spec=spec))
    return sched


def walk_announcer(ctx, spec, rng):
    """entries queued through the announcer (collector or zero-timeout bypass)"""
    import someip.header as H

    h = Harness(rng)
    prot, tr = net.make_sd(h.loop, timings=net.timings(SEND_COLLECTION_TIMEOUT=spec["collect"]))
    dsts = [None, ("10.9.1.1", 30490), ("2001:db8::77", 30490, 0, 0)]
    n = spec["n"]
    t = 0.0
    for i in range(n):
        t += rng.choice((0.0, 0.0, 2.0 ** -10, 2.0 ** -6))
        h.at(t, prot.announcer.queue_send, some_entry(H, i), rng.choice(dsts))
    h.run(t + 1.0)
    model = IdModel()
    judge_sd_log(ctx, tr.sent, model, dict(spec=spec), "announcer.queue_send")
    ctx.count("announcer_path_datagrams", len(tr.sent))
    ctx.count("destinations_checked", len(dsts))
    bad = h.problems()
    h.close()
    for b in bad:
        ctx.violation("unexpected-exception-during-run", b, dict(spec=spec))


def walk_answers(ctx, spec, rng):
    """messages the stack produces by itself while it handles what it receives: acknowledgements (made inside the receive
    path when nothing is collected), answers to FindService (made right after it), cyclic offers - for peers whose Find and
    Subscribe arrive in one loop iteration, in either order, in one datagram or two"""
    import someip.config as C
    import someip.sd as S

    for sc in range(spec["scenarios"]):
        h = Harness(random.Random(rng.random()), max_iterations=400000)
        collect = (0, 0, 2.0 ** -7)[sc % 3]
        tm = net.timings(INITIAL_DELAY_MIN=0, INITIAL_DELAY_MAX=0, REPETITIONS_MAX=0, CYCLIC_OFFER_DELAY=rng.choice((0, 0.5)),
                         SEND_COLLECTION_TIMEOUT=collect, REQUEST_RESPONSE_DELAY_MIN=0, REQUEST_RESPONSE_DELAY_MAX=0)
        prot, tr = net.make_sd(h.loop, ("10.9.3.1", 30490), timings=tm)
        peers = [("10.9.3.2", 30490), ("10.9.3.3", 30490), ("2001:db8::93", 30490, 0, 0)]
        sess = {p: net.PeerSession() for p in peers}

        def setup():
            for iid in (1, 2):
                svc = C.Service(0x3333, iid, 1, 0, eventgroups=frozenset({1, 2}))
                prot.announcer.announce_service(S.ServiceInstance(svc, S.ServerServiceListener(), prot.announcer, tm))
            prot.announcer.start()

        h.at(0.0, setup)
        t = 0.25
        for _ in range(spec["actions"]):
            t += rng.choice((0.0, 2.0 ** -9, 2.0 ** -7, 0.125))
            p = rng.choice(peers)
            ep = refwire.ep4(p[0], 4000) if ":" not in p[0] else refwire.ep6(p[0], 4000)
            find = net.find(0x3333, rng.choice((1, 2, 0xFFFF)))
            sub = net.subscribe(0x3333, rng.choice((1, 2)), 1, rng.choice((1, 2, 3)), rng.choice((3, 3, 0)), o1=[ep])
            shape = rng.randrange(5)
            groups = ([[find], [sub]], [[sub], [find]], [[find, sub]], [[sub, find, sub]], [[sub]])[shape]
            for ents in groups:
                fl, sid = sess[p].next()
                h.at(t, prot.datagram_received, net.sd_bytes(ents, sid, reboot=fl), p, rng.random() < 0.2 and len(ents) == 1 and ents[0] is find)
            ctx.count("find_and_subscribe_of_one_peer_in_one_iteration" if shape < 4 else "lone_subscribes")
        # half of the stacks get a new transport object halfway (the application re-opened its socket and assigned the public
        # attribute again): the peers see one sequence
        trs = [tr]
        if sc % 2:
            def swap():
                trs.append(net.RecTransport(h.loop, ("10.9.3.1", 30490)))
                prot.transport = trs[-1]

            h.at(0.25 + (t - 0.25) / 2 + 2.0 ** -11, swap)
            ctx.count("stacks_whose_transport_was_assigned_again_midway")
        h.run(t + 1.0)
        sent = [x for one in trs for x in one.sent]
        judge_sd_log(ctx, sent, IdModel(), dict(spec=spec), "answers made while receiving")
        ctx.count("answer_path_datagrams", len(sent))
        bad = h.problems()
        h.close()
        for b in bad:
            ctx.violation("unexpected-exception-during-run", b, dict(spec=spec))
        if ctx.n_violations:
            return


def walk_notifications(ctx, spec, rng):
    """SimpleEventgroup notifications to several subscribers across the wrap"""
    import ipaddress
    import someip.header as H
    import someip.service as SV

    h = Harness(rng)
    loop = h.loop

    class Svc(SV.SimpleService):
        service_id = 0x2222
        version_major = 2
        version_minor = 0

    res = {}

    def setup():
        svc = Svc(instance_id=1)
        svc.transport = net.RecTransport(loop, ("10.9.2.1", 30509))
        eg = SV.SimpleEventgroup(svc, id=1)
        svc.register_eventgroup(eg)
        nev = spec["events"]
        for i in range(nev):
            eg.values[i + 1] = bytes([i])
        eps = []
        for i in range(spec["nsub"]):
            if i % 2:
                eps.append(H.IPv6EndpointOption(address=ipaddress.IPv6Address(f"2001:db8::{i + 1}"),
                                                l4proto=H.L4Protocols.UDP, port=4000 + i))
            else:
                eps.append(H.IPv4EndpointOption(address=ipaddress.IPv4Address(f"10.9.2.{i + 10}"),
                                                l4proto=H.L4Protocols.UDP, port=4000 + i))
        late = eps[1:] if spec.get("mixed") else []
        for ep in eps:
            if ep not in late:
                eg.subscribe(ep)
        res.update(svc=svc, eg=eg, eps=eps, nev=nev, late=late)

    h.at(0.0, setup)
    h.run(0.0)
    rounds = spec["rounds"]
    t = 0.0
    mixed = spec.get("mixed")
    join_at = sorted(rng.randrange(5, 400) for _ in range(spec["nsub"] - 1)) if mixed else []

    def one_round(subset):
        eg = res["eg"]
        eg.notify_once(subset if subset else list(eg.values.keys()))
        if spec.get("double"):
            # two rounds asked for in one loop iteration (two values changed in one go): both are in flight at once
            eg.notify_once(subset if subset else list(eg.values.keys()))

    for r in range(rounds):
        t += 2.0 ** -10
        while mixed and join_at and r >= join_at[0]:
            join_at.pop(0)
            h.at(t, lambda: res["eg"].subscribe(res["late"].pop(0)))
            t += 2.0 ** -10
        subset = None
        if mixed:
            evs = list(range(1, spec["events"] + 1))
            rng.shuffle(evs)
            subset = evs[: rng.randrange(1, len(evs) + 1)]
        h.at(t, one_round, subset)
    h.loop.max_iterations = 20 * rounds + 100000
    h.run(t + 1.0)
    tr = res["svc"].transport
    nexts = {}
    total = 0
    for tt, it, data, dst in tr.sent:
        msgs, bad = refwire.split_datagram(data)
        if bad:
            ctx.violation("notification-datagram-malformed", dict(dst=dst, data=data[:48]), dict(spec=spec))
            break
        ctx.count("datagrams_decoded")
        for m in msgs:
            exp = nexts.get(dst, 1)
            total += 1
            if m["sess"] != exp:
                mech = "session-id-zero-sent" if m["sess"] == 0 else "session-id-gap-or-repeat"
                ctx.violation(mech, dict(path="notification", dst=dst, expected=exp, got=m["sess"]), dict(spec=spec))
                nexts[dst] = None
                break
            if exp == 0xFFFF:
                ctx.count("notification_wraps")
                ctx.count("wraps_observed")
                if m is not msgs[-1]:
                    ctx.count("notification_wraps_inside_a_datagram")
            nexts[dst] = 1 if exp >= 0xFFFF else exp + 1
        if nexts.get(dst, 1) is None:
            break
    ctx.count("notifications_decoded", total)
    ctx.count("destinations_checked", len(nexts))
    if len(nexts) != spec["nsub"]:
        ctx.violation("notification-destinations-differ-from-subscribers", dict(seen=len(nexts), subscribers=spec["nsub"]),
                      dict(spec=spec))
    bad = h.problems()
    h.close()
    for b in bad:
        ctx.violation("unexpected-exception-during-run", b, dict(spec=spec))


def walk_notification_churn(ctx, spec, rng):
    """subscribers come and go while notifications are in flight (address resolution takes virtual time): every id a
    destination ever sees must continue the sequence - an id taken for a datagram that is then not sent would show as a gap"""
    import ipaddress
    import someip.header as H
    import someip.service as SV

    for sc in range(spec["scenarios"]):
        h = Harness(rng, max_iterations=400000)
        loop = h.loop
        loop.gai_latency = rng.choice((2.0 ** -6, 2.0 ** -5))
        lat = loop.gai_latency
        if sc % 2:
            # address look-ups run in a thread pool: they take different times and complete out of order
            lrng = random.Random(rng.random())
            loop.gai_latency = lambda host, port, lat=lat, lrng=lrng: lrng.choice((lat / 4, lat / 2, lat, lat, 2 * lat, 3 * lat))
            ctx.count("churn_scenarios_with_lookups_completing_out_of_order")

        class Svc(SV.SimpleService):
            service_id = 0x2323
            version_major = 1
            version_minor = 0

        res = {}

        def setup():
            svc = Svc(instance_id=1)
            svc.transport = net.RecTransport(loop, ("10.9.4.1", 30509))
            eg = SV.SimpleEventgroup(svc, id=1, interval=rng.choice((None, 0.25)))
            svc.register_eventgroup(eg)
            for i in range(3):
                eg.values[i + 1] = bytes([i])
            res.update(svc=svc, eg=eg)

        eps = [H.IPv4EndpointOption(address=ipaddress.IPv4Address("10.9.4.9"), l4proto=H.L4Protocols.UDP, port=4100 + i) for i in range(2)]
        eps.append(H.IPv6EndpointOption(address=ipaddress.IPv6Address("2001:db8::49"), l4proto=H.L4Protocols.UDP, port=4100))
        h.at(0.0, setup)
        subscribed = set()
        t = 0.125
        for _ in range(spec["actions"]):
            t += rng.choice((0.0, lat / 2, lat / 2, lat, 2 * lat, 0.125))
            i = rng.randrange(len(eps))
            r = rng.random()
            if r < 0.35:
                if i in subscribed:
                    subscribed.discard(i)
                    h.at(t, lambda i=i: res["eg"].unsubscribe(eps[i]))
                else:
                    subscribed.add(i)
                    h.at(t, lambda i=i: res["eg"].subscribe(eps[i]))
            else:
                evs = rng.sample([1, 2, 3], rng.randrange(1, 4))
                h.at(t, lambda evs=evs: res["eg"].notify_once(evs))
        h.run(t + 1.0)
        nexts = {}
        for tt, it, data, dst in res["svc"].transport.sent:
            msgs, bad = refwire.split_datagram(data)
            ctx.count("datagrams_decoded")
            for m in msgs:
                exp = nexts.get(dst, 1)
                if m["sess"] != exp:
                    ctx.violation("session-id-zero-sent" if m["sess"] == 0 else "session-id-gap-or-repeat",
                                  dict(path="notification with subscriber churn", dst=dst, expected=exp, got=m["sess"], at=tt),
                                  dict(spec=spec))
                    nexts[dst] = (m["sess"] % 0xFFFF) + 1
                else:
                    nexts[dst] = 1 if exp >= 0xFFFF else exp + 1
                ctx.count("churn_notifications_checked")
        ctx.count("churn_scenarios")
        bad = [p for p in h.problems() if p[0] != "logged_exception"]
        h.close()
        for b in bad:
            ctx.violation("unexpected-exception-during-run", b, dict(spec=spec))


def thread_stress(ctx, spec, rng):
    """the allocator's own lock is the only legal multi-threaded entry: 4 threads, 2
    destinations, GIL hand-off forced between the statements of assign_outgoing"""
    import someip.sd as S

    prot = S.ServiceDiscoveryProtocol(net.MCAST)
    ss = getattr(prot, "session_storage", None)
    fn = getattr(type(ss), "assign_outgoing", None)
    if fn is None:
        ctx.count("thread_stress_unavailable")
        return
    code = fn.__code__
    mon = sys.monitoring
    TOOL = 3
    import time

    yields = [0]

    def on_line(c, line):
        yields[0] += 1
        time.sleep(0)

    mon.use_tool_id(TOOL, "pv-yield")
    mon.register_callback(TOOL, mon.events.LINE, on_line)
    mon.set_local_events(TOOL, code, mon.events.LINE)
    old = sys.getswitchinterval()
    sys.setswitchinterval(1e-6)
    dsts = [None, ("10.9.3.1", 30490)]
    per = spec["per_thread"]
    got = {d: [] for d in dsts}
    lock = threading.Lock()

    def worker(seed):
        r = random.Random(seed)
        mine = {d: [] for d in dsts}
        for _ in range(per):
            d = r.choice(dsts)
            mine[d].append(ss.assign_outgoing(d))
        with lock:
            for d in dsts:
                got[d].extend(mine[d])

    ths = [threading.Thread(target=worker, args=(i,)) for i in range(4)]
    try:
        for t in ths:
            t.start()
        for t in ths:
            t.join()
    finally:
        sys.setswitchinterval(old)
        mon.set_local_events(TOOL, code, 0)
        mon.register_callback(TOOL, mon.events.LINE, None)
        mon.free_tool_id(TOOL)
    ctx.count("thread_yield_points", yields[0])
    for d in dsts:
        ids = sorted(x[1] for x in got[d])
        n = len(ids)
        want = sorted(((i % 0xFFFF) + 1) for i in range(n))
        ctx.count("thread_ids_checked", n)
        if ids != want:
            dup = [a for a, b in zip(ids, ids[1:]) if a == b][:5]
            ctx.violation("concurrent-allocation-duplicates-or-skips-ids", dict(dst=d, n=n, duplicates=dup), dict(spec=spec))


def shards(tier, seed):
    out = [dict(shard=0, seed=seed, mode="direct", ndst=1, per_dst=2 * 65535 + 70)]
    k = 3 if tier == "quick" else 10
    for i in range(k):
        out.append(dict(shard=1 + i, seed=seed, mode="direct", ndst=3 + i % 3,
                        per_dst=(65535 + 300) if tier == "quick" else (2 * 65535 + 300)))
    out.append(dict(shard=19, seed=seed, mode="direct", ndst=2, per_dst=300, crowd=4500 if tier == "quick" else 70000))
    out.append(dict(shard=20, seed=seed, mode="announcer", collect=0, n=3000))
    out.append(dict(shard=21, seed=seed, mode="announcer", collect=2.0 ** -8, n=6000))
    # the wrap must also fall inside a multi-message datagram: 65535 is a multiple of 3 but not of 2 or 4, so with 2 or
    # 4 events per round 0xFFFF is not the last id of its batch; the 'mixed' shard uses random subsets and a late joiner
    out.append(dict(shard=30, seed=seed, mode="notify", nsub=2, events=3, rounds=65535 // 3 + 60))
    out.append(dict(shard=33, seed=seed, mode="notify", nsub=2, events=2, rounds=65535 // 2 + 60))
    out.append(dict(shard=34, seed=seed, mode="notify", nsub=2, events=4, rounds=65535 // 4 + 60))
    out.append(dict(shard=35, seed=seed, mode="notify", nsub=3, events=3, rounds=65535 // 2 + 200, mixed=True))
    out.append(dict(shard=36, seed=seed, mode="churn", scenarios=40 if tier == "quick" else 1500, actions=120))
    out.append(dict(shard=38, seed=seed, mode="notify", nsub=3, events=20, rounds=300 if tier == "quick" else 4000, double=True))
    out.append(dict(shard=37, seed=seed, mode="answers", scenarios=60 if tier == "quick" else 3000, actions=80))
    if tier == "thorough":
        out.append(dict(shard=22, seed=seed, mode="announcer", collect=0, n=70000))
        out.append(dict(shard=31, seed=seed, mode="notify", nsub=4, events=1, rounds=65535 + 60))
        out.append(dict(shard=32, seed=seed, mode="notify", nsub=3, events=2, rounds=65535 + 60))
        for i in range(3):
            out.append(dict(shard=40 + i, seed=seed, mode="threads", per_thread=40000))
    else:
        out.append(dict(shard=40, seed=seed, mode="threads", per_thread=4000))
    return out


def run(spec, ctx):
    rng = random.Random(f"C08/{spec['seed']}/{spec['shard']}")
    mode = spec["mode"]
    if mode == "direct":
        sched = walk_direct(ctx, spec, rng)
        ctx.case(("direct", spec["ndst"], tuple(sched[:200])), True,
                 sample=dict(path="send_sd", destinations=spec["ndst"], sends_per_destination=spec["per_dst"],
                             block_schedule_head=sched[:12]))
    elif mode == "announcer":
        walk_announcer(ctx, spec, rng)
        ctx.case(("announcer", spec["collect"], spec["n"]), True,
                 sample=dict(path="announcer.queue_send", collection_timeout=spec["collect"], entries=spec["n"]))
    elif mode == "notify":
        walk_notifications(ctx, spec, rng)
        ctx.case(("notify", spec["nsub"], spec["events"], spec["rounds"], bool(spec.get("double"))), True,
                 sample=dict(path="SimpleEventgroup.notify_once", subscribers=spec["nsub"], events=spec["events"],
                             rounds=spec["rounds"]))
    elif mode == "answers":
        walk_answers(ctx, spec, rng)
        ctx.case(("answers", spec["scenarios"]), True, sample=dict(path="acknowledgements, find answers and cyclic offers of a live "
                                                                   "stack", scenarios=spec["scenarios"]))
    elif mode == "churn":
        walk_notification_churn(ctx, spec, rng)
        ctx.case(("churn", spec["scenarios"]), True, sample=dict(path="notifications with subscribers coming and going while address "
                                                                 "resolution is in flight", scenarios=spec["scenarios"]))
    elif mode == "threads":
        thread_stress(ctx, spec, rng)
        ctx.case(("threads", spec["per_thread"]), True,
                 sample=dict(path="assign_outgoing from 4 threads", per_thread=spec["per_thread"]))


def replay(doc, ctx):
    run(doc["spec"], ctx)
