"""C14 - client subscription messages mirror the requested subscription set."""
from __future__ import annotations

import math
import random

from pv import net, refwire
from pv.vloop import Harness, EPS, BEFORE, AFTER, RES

ID = "C14"
LEVEL = "exploration"
TECHNIQUE = ("runtime model server applying the decoded Subscribe/StopSubscribe wire log (with TTL expiry in virtual time), compared at "
             "idle points with the requested set of a live ServiceSubscriber; requests placed around every refresh tick")
LEVEL_TEXT = ("Held on every generated script of the run: subscribe / stop-subscribe / start / stop requests for 4 eventgroups (IPv4 and "
              "IPv6 local endpoints, UDP and TCP) and 4 servers, at new instants, in the same loop iteration as the previous request "
              "(all orders arise) and at d-eps / d ahead of the timer / d behind the timer / d+eps of the next refresh tick, for finite "
              "TTL with refresh and infinite TTL without. A model server per destination applies what is on the wire, in wire order; at "
              "every idle point its holdings must equal the requested set while the subscriber runs and be empty when it does not; "
              "entry contents, destinations and refresh gaps are checked on every datagram. Scripts are sampled")
LEVEL_NOTE = "trusts the model server in this module and pv/refwire.py; no duplicate subscribe of one (eventgroup, server) pair, as the quantifier states"
TIEBREAK_VARIANTS = True  # thorough tier: some shards run equal-deadline timers LIFO / in seeded random order
RULE = (
    "scripts of 3-30 requests over {subscribe, stop-subscribe} x 4 eventgroups x 4 servers and {start, stop}; placement classes new "
    "instant / same iteration / 1-3 loop iterations later in the same instant / around the next refresh tick (also 1-3 iterations "
    "behind it); two timing configurations (TTL 5 refresh 3 s, TTL infinite no refresh) "
    "plus TTL 2 refresh 1. distinct = distinct (config, (request, placement) sequence); non-trivial = at least one Subscribe was "
    "sent and one request changed the requested set while running"
)
ASSUMPTIONS = ["a server 'applies' entries in datagram order, then entry order; Subscribe(ttl) holds until now+ttl, StopSubscribe removes"]
FLOORS = {"quick": {"scripts": 8000, "idle_comparisons": 150000, "subscribe_entries_checked": 100000, "stop_entries_checked": 15000,
                    "refresh_gaps_checked": 30000, "requests_same_iteration": 20000, "requests_at_tick_before": 2000,
                    "requests_at_tick_after": 2000, "requests_tick_adjacent": 4000, "stop_start_cycles": 3000, "requests_hopped_iterations": 8000}}

FOREVER = 0xFFFFFF
SERVERS = [("10.0.14.2", 30490), ("2001:db8::e2", 30490, 0, 0), ("10.0.14.3", 30490), ("2001:db8::e3", 30490, 0, 0),
           # two servers whose socket addresses differ in the scope id only; one that differs from the first in the port only
           ("fe80::e4", 30490, 0, 2), ("fe80::e4", 30490, 0, 3), ("10.0.14.2", 30491)]
# eventgroups: (sid, iid, maj, egid, sockname, proto)
EGS = [(0x9001, 1, 1, 1, ("10.0.14.1", 5001), 17), (0x9001, 1, 1, 2, ("10.0.14.1", 5002), 6),
       (0x9002, 3, 2, 1, ("2001:db8::e1", 5003, 0, 0), 17), (0x9003, 0x10, 1, 0x20, ("2001:db8::e1", 5004), 6),
       # "one port for UDP and TCP": the same local address and port as another eventgroup, other transport protocol
       (0x9001, 1, 1, 3, ("10.0.14.1", 5001), 6), (0x9002, 3, 2, 2, ("2001:db8::e1", 5003, 0, 0), 6)]
CONFIGS = [dict(ttl=5, refresh=3.0), dict(ttl=FOREVER, refresh=None), dict(ttl=2, refresh=1.0)]


def ref_endpoint(eg):
    host, port = eg[4][0], eg[4][1]
    return refwire.ep6(host, port, eg[5]) if ":" in host else refwire.ep4(host, port, eg[5])


def build(rng):
    cfg = rng.choice(CONFIGS)
    script = []
    now = 0.25
    running = False
    requested = set()
    last_start = None
    pat = []
    changed_running = False
    cycles = 0
    hopped = False
    hot_srv = rng.randrange(len(SERVERS))  # most requests of a scenario concern one server: sequences for ONE peer matter
    forced = None
    for _ in range(rng.randrange(3, 31)):
        pl = rng.choice(("new", "new", "same", "same", "d-eps", "d:before", "d:after", "d+eps", "d:after+1", "d:after+2", "d:after+3", "same+1", "d-res"))
        if forced is not None and not hopped:
            pl = "same"
        if hopped:
            forced = None
            pl = "new"  # nothing else in the instant of a hopped request: keeps the script order equal to the execution order
        hops = 0
        if "+" in pl and pl != "d+eps":
            pl, h = pl.split("+")
            hops = int(h)
        rank = BEFORE
        tick = None
        if running and cfg["refresh"]:
            k = math.floor((now - last_start) / cfg["refresh"]) + 1
            tick = last_start + k * cfg["refresh"]
        if pl in ("d-eps", "d:before", "d:after", "d+eps", "d-res") and tick is None:
            pl = "new"
        if pl == "new":
            t = now + rng.choice((0.125, 0.25, 0.5, 1.0, 1.75, 2.5))
            if tick is not None and abs(t - tick) < 4 * EPS:
                t += 2.0 ** -6
        elif pl == "same":
            t = now
            rank = script[-1][1] if script else BEFORE
        else:
            t, rank = {"d-eps": (tick - EPS, BEFORE), "d:before": (tick, BEFORE), "d:after": (tick, AFTER), "d+eps": (tick + EPS, BEFORE),
                       "d-res": (tick - RES / 2, BEFORE)}[pl]  # d-res: the refresh timer runs in the iteration of this request
            if t < now or 0 < t - now < 4 * RES or (t == now and script and script[-1][1] == AFTER and rank == BEFORE):
                t, rank, pl = now + 0.125, BEFORE, "new"
        r = rng.random()
        if forced is not None:
            # stop-subscribe directly followed by subscribe of the same eventgroup at the same server, in one loop iteration
            pair, forced = forced, None
            a = dict(kind="sub", eg=pair[0], srv=pair[1])
            requested.add(pair)
            if running:
                changed_running = True
        elif r < 0.2:
            a = dict(kind="stop" if running else "start")
            if running:
                running = False
            else:
                running, last_start = True, t
                cycles += 1
        else:
            pair = (rng.randrange(len(EGS)), hot_srv if rng.random() < 0.55 else rng.randrange(len(SERVERS)))
            if pair in requested:
                a = dict(kind="unsub", eg=pair[0], srv=pair[1])
                requested.discard(pair)
                if rng.random() < 0.35:
                    forced = pair
            elif rng.random() < 0.1:
                a = dict(kind="unsub", eg=pair[0], srv=pair[1])  # stop-subscribe of something not requested
            else:
                a = dict(kind="sub", eg=pair[0], srv=pair[1])
                requested.add(pair)
            if running:
                changed_running = True
        script.append((t, rank, a, hops))
        hopped = hops > 0
        pat.append((a["kind"], a.get("eg"), a.get("srv"), pl, hops))
        now = t
    return dict(cfg=cfg, script=script, pat=tuple(pat), horizon=now + (7.0 if cfg["refresh"] else 2.0), changed=changed_running,
                cycles=cycles)


_STOPS = [0, 0]


class Run:
    def __init__(self, sc, seed):
        import someip.config as C
        import someip.header as H

        self.sc = sc
        cfg = sc["cfg"]
        self.h = Harness(random.Random(seed), max_iterations=100000)
        tm = net.timings(SUBSCRIBE_TTL=cfg["ttl"], SUBSCRIBE_REFRESH_INTERVAL=cfg["refresh"])
        self.prot, self.tr = net.make_sd(self.h.loop, ("10.0.14.1", 30490), timings=tm)
        self.egs = [C.Eventgroup(service_id=e[0], instance_id=e[1], major_version=e[2], eventgroup_id=e[3], sockname=e[4],
                                 protocol=H.L4Protocols(e[5])) for e in EGS]
        self.pos = 0
        self.requested = set()
        self.running = False
        self.server = {s: {} for s in SERVERS}  # held: key -> deadline
        self.applied = 0
        self.violations = []
        self.stats = dict(idle_comparisons=0, subscribe_entries_checked=0, stop_entries_checked=0, refresh_gaps_checked=0)
        self.last_sub = {}  # (srv, key) -> time of the last Subscribe on the wire
        self.req_since = {}  # pair -> time since it is requested and the subscriber is running
        self.raised = []

    def fail(self, mech, **detail):
        if len(self.violations) < 3:
            detail["t"] = self.h.loop.time()
            self.violations.append((mech, detail))

    def do(self, a):
        sub = self.prot.subscriber
        try:
            if a["kind"] == "start":
                # start() takes the loop as an optional argument: without it, positionally or by keyword
                self.n_starts = getattr(self, "n_starts", 0) + 1
                if self.n_starts % 3 == 0:
                    sub.start()
                elif self.n_starts % 3 == 1:
                    sub.start(self.h.loop)
                else:
                    sub.start(loop=self.h.loop)
            elif a["kind"] == "stop":
                # the component was started by itself (as tools/monitor-sd.py starts the discovery half); shutting down goes
                # through the component or, every third time, through the whole stack's stop()
                _STOPS[0] += 1
                if _STOPS[0] % 3 == 2:
                    self.prot.stop()
                    _STOPS[1] += 1
                else:
                    sub.stop()
            elif a["kind"] == "sub":
                sub.subscribe_eventgroup(self.egs[a["eg"]], SERVERS[a["srv"]])
            else:
                # the stop names the eventgroup by an equal description, not necessarily by the very object that was subscribed
                # (the library's own auto-subscribe helper builds a fresh one with for_service() every time)
                import dataclasses
                self.n_stops = getattr(self, "n_stops", 0) + 1
                eg = self.egs[a["eg"]]
                sub.stop_subscribe_eventgroup(dataclasses.replace(eg) if self.n_stops % 2 else eg, SERVERS[a["srv"]])
        except Exception as exc:
            self.raised.append((a, repr(exc)))

    def apply_wire(self):
        cfg = self.sc["cfg"]
        keys = {(e[0], e[1], e[2], e[3]): i for i, e in enumerate(EGS)}
        while self.applied < len(self.tr.sent):
            t, _it, data, dst = self.tr.sent[self.applied]
            self.applied += 1
            try:
                msgs = refwire.parse_sd_datagram(data)
            except refwire.RefError as exc:
                self.fail("undecodable-transmission", exc=repr(exc))
                continue
            if dst not in self.server:
                self.fail("subscription-message-sent-to-an-unknown-destination", dst=dst)
                continue
            for sd in msgs:
                for e in sd["entries"]:
                    if e["type"] != 6:
                        self.fail("subscriber-sent-a-non-subscribe-entry", entry=e)
                        continue
                    key = (e["sid"], e["iid"], e["maj"], e["val"] & 0xFFFF)
                    i = keys.get(key)
                    o1, o2 = refwire.entry_runs(sd, e)
                    if i is None:
                        self.fail("subscribe-entry-ids-match-no-requested-eventgroup", entry=e)
                        continue
                    pair = (i, SERVERS.index(dst))
                    if e["ttl"] == 0:
                        self.stats["stop_entries_checked"] += 1
                        self.server[dst].pop(key, None)
                        continue
                    self.stats["subscribe_entries_checked"] += 1
                    if e["ttl"] != cfg["ttl"]:
                        self.fail("subscribe-ttl-differs-from-configuration", entry=e)
                    if o1 + o2 != [ref_endpoint(EGS[i])] or (e["val"] >> 16):
                        self.fail("subscribe-endpoint-option-or-counter-wrong", got=(o1, o2), expected=ref_endpoint(EGS[i]))
                    if pair not in self.model_ever_requested_for:
                        self.fail("subscribe-sent-to-a-server-it-was-not-requested-for", eventgroup=EGS[i][:4], dst=dst)
                    self.server[dst][key] = math.inf if e["ttl"] == FOREVER else t + e["ttl"]
                    lk = (dst, key)
                    if cfg["refresh"] and lk in self.last_sub and pair in self.req_since and self.req_since[pair] <= self.last_sub[lk]:
                        self.stats["refresh_gaps_checked"] += 1
                        if t - self.last_sub[lk] > cfg["refresh"] + 4 * RES:
                            self.fail("requested-subscription-not-refreshed-within-the-refresh-interval",
                                      eventgroup=EGS[i][:4], dst=dst, gap=t - self.last_sub[lk])
                    self.last_sub[lk] = t

    model_ever_requested_for = None

    def on_idle(self):
        T = self.h.loop.time()
        script = self.sc["script"]
        while self.pos < len(script) and script[self.pos][0] <= T + RES:
            t, _r, a, _h = script[self.pos]
            self.pos += 1
            if a["kind"] == "start":
                self.running = True
                for p in self.requested:
                    self.req_since[p] = t
            elif a["kind"] == "stop":
                self.running = False
                self.req_since.clear()
            elif a["kind"] == "sub":
                p = (a["eg"], a["srv"])
                self.requested.add(p)
                self.model_ever_requested_for.add(p)
                if self.running:
                    self.req_since[p] = t
            else:
                p = (a["eg"], a["srv"])
                self.requested.discard(p)
                self.req_since.pop(p, None)
        self.apply_wire()
        for srv in SERVERS:
            held = self.server[srv]
            for k in [k for k, d in held.items() if d != math.inf and d <= T + RES]:
                del held[k]
            want = {(EGS[i][0], EGS[i][1], EGS[i][2], EGS[i][3]) for i, s in self.requested if SERVERS[s] == srv} if self.running else set()
            self.stats["idle_comparisons"] += 1
            if set(held) != want:
                missing, extra = want - set(held), set(held) - want
                if not self.running and extra:
                    mech = "server-still-holds-subscriptions-after-subscriber-stopped"
                elif missing:
                    mech = "server-misses-a-requested-subscription"
                else:
                    mech = "server-holds-a-subscription-that-is-not-requested"
                self.fail(mech, server=srv, missing=sorted(missing), extra=sorted(extra), running=self.running)
        # refresh liveness: a pair requested and running for longer than one interval must have been sent within it
        cfg = self.sc["cfg"]
        if cfg["refresh"] and self.running:
            for p, since in self.req_since.items():
                i, s = p
                lk = (SERVERS[s], (EGS[i][0], EGS[i][1], EGS[i][2], EGS[i][3]))
                last = self.last_sub.get(lk, -math.inf)
                ref = max(last, since)
                if T - ref > cfg["refresh"] + 4 * RES:
                    self.fail("requested-subscription-not-refreshed-within-the-refresh-interval", eventgroup=EGS[i][:4],
                              dst=SERVERS[s], waited=T - ref)

    def execute(self):
        self.model_ever_requested_for = set()
        self.h.loop.idle_hooks.append(self.on_idle)
        for t, rank, a, hops in self.sc["script"]:
            self.h.at(t, self.do, a, rank=rank, hops=hops)
        self.h.run(self.sc["horizon"])
        problems = self.h.problems()
        self.h.close()
        return problems


def judge(ctx, sc, seed, replay):
    run = Run(sc, seed)
    problems = run.execute()
    ctx.count("scripts")
    ctx.count("subscriber_stopped_through_the_stack", _STOPS[1])
    _STOPS[1] = 0
    ctx.count("stop_start_cycles", sc["cycles"])
    for k, v in run.stats.items():
        ctx.count(k, v)
    for kind, _e, _s, pl, hops in sc["pat"]:
        if hops:
            ctx.count("requests_hopped_iterations")
        if pl == "same":
            ctx.count("requests_same_iteration")
        elif pl == "d:before":
            ctx.count("requests_at_tick_before")
        elif pl == "d:after":
            ctx.count("requests_at_tick_after")
        elif pl in ("d-eps", "d+eps"):
            ctx.count("requests_tick_adjacent")
        elif pl == "d-res":
            ctx.count("requests_within_resolution_before_tick")
    brief = dict(config=sc["cfg"], script=[(t, r, a, h) for t, r, a, h in sc["script"]][:16])
    for mech, detail in run.violations[:2]:
        detail.update(brief)
        ctx.violation(mech, detail, replay)
    for a, e in run.raised:
        ctx.violation("subscriber-request-raises", dict(request=a, exc=e, **brief), replay)
    for p in problems:
        ctx.violation("unexpected-exception-during-run", dict(problem=p, **brief), replay)
    return run.stats["subscribe_entries_checked"] > 0 and sc["changed"]


def shards(tier, seed):
    return [dict(shard=i, seed=seed, n=600 if tier == "quick" else 40000) for i in range(16)]


def run(spec, ctx):
    base = f"C14/{spec['seed']}/{spec['shard']}"
    for i in range(spec["n"]):
        rng = random.Random(f"{base}/{i}")
        sc = build(rng)
        nt = judge(ctx, sc, "s", dict(base=base, index=i))
        ctx.case((sc["cfg"]["ttl"], sc["pat"]), nt,
                 sample=dict(config=sc["cfg"], requests=[dict(t=t, rank=r, hops=h, **a) for t, r, a, h in sc["script"][:10]]) if i < 2 else None)


def replay(doc, ctx):
    rng = random.Random(f"{doc['base']}/{doc['index']}")
    judge(ctx, build(rng), "s", doc)
    ctx.case(("replay",), True)
