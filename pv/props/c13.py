"""C13 - FindService is sent only for watched services not yet found, bounded in number."""
from __future__ import annotations

import math
import random

from pv import net, refwire
from pv.vloop import Harness, EPS, BEFORE, AFTER, RES

ID = "C13"
LEVEL = "exploration"
TECHNIQUE = ("runtime find-round model (live-offer table + round schedule) vs decoded FindService entries of a live discovery client "
             "on a virtual-time loop; offers / stop-offers / expiries placed around every scheduled round")
LEVEL_TEXT = ("Held on every generated scenario of the run: 1-4 watched filters with wildcards, timing configurations (initial window x "
              "forced draw, 0-4 repetitions, base delay), offers / stop-offers from two sources for any subset placed before, "
              "at (ahead/behind/one resolution around) and after each scheduled round, incl. offers that expire between rounds; every "
              "transmitted datagram must be a FindService round at a scheduled instant, to the multicast group, with exactly the "
              "filters that have no matching live offer; at most 1+repetitions rounds; none after a round with nothing to ask")
LEVEL_NOTE = ("trusts the round/live-offer model in this module and pv/refwire.py; an offer, stop or expiry closer than the clock "
              "resolution to a round makes that filter 'either' in that round")
TIEBREAK_VARIANTS = True  # thorough tier: some shards run equal-deadline timers LIFO / in seeded random order
RULE = (
    "filters drawn from a pool (exact, wildcard instance, wildcard major+minor, all-wildcard, second service); rounds R0 = start + "
    "draw, R(i+1) = R(i) + base * 2^i; 0-8 offer/stop events, each for a service matching one or more filters, TTL {1,2,infinite}, "
    "placed at random instants or at a round instant d-eps / d ahead / d behind / d+eps. distinct = distinct (config class, filter "
    "set, event pattern with placement classes); non-trivial = at least one filter was found or lost again during the rounds"
)
ASSUMPTIONS = ["filters are registered before start (the quantifier's 'sets of watched filters'); unwatch is outside the quantifier"]
FLOORS = {"quick": {"scenarios": 8000, "rounds_checked": 15000, "find_entries_checked": 25000, "rounds_with_found_filters": 4000,
                    "sequences_ended_all_found": 500, "event_at_round_before": 1000, "event_at_round_after": 1000,
                    "event_round_adjacent": 1500, "offers_expired_between_rounds": 800, "max_rounds_reached": 1000, "scenarios_with_a_second_listener_that_lets_go_of_the_filters": 2000,
                    "mesh_scenarios": 100, "mesh_find_entries_checked": 480, "mesh_finds_judged_against_listener_knowledge": 180}}
# system-level shards: the mesh workload of pv/mesh.py under this property's boundary monitor (reports of other monitors are dropped)
MESH = {"want": ("finds",), "claim": ("mesh:find-",),
        "quick": (2, 60), "thorough": (16, 1500)}

FOREVER = 0xFFFFFF
W = (0xFFFF, 0xFF, 0xFFFFFFFF)
FILTERS = [(0x6001, 1, 1, 5), (0x6001, 0xFFFF, 1, 5), (0x6001, 2, 0xFF, 0xFFFFFFFF), (0x6001, 0xFFFF, 0xFF, 0xFFFFFFFF),
           (0x6002, 1, 0xFF, 0xFFFFFFFF), (0x6002, 0xFFFF, 2, 0xFFFFFFFF), (0x6003, 7, 3, 9),
           # the remaining wildcard patterns: any major with a pinned minor, any instance with pinned major and minor
           (0x6001, 0xFFFF, 0xFF, 5), (0x6002, 1, 0xFF, 0), (0x6001, 2, 0xFF, 6), (0x6003, 0xFFFF, 3, 8)]
SERVICES = [(0x6001, 1, 1, 5), (0x6001, 2, 1, 5), (0x6001, 2, 2, 6), (0x6001, 3, 1, 4), (0x6002, 1, 1, 0), (0x6002, 1, 2, 0),
            (0x6003, 7, 3, 9), (0x6003, 7, 3, 8)]
# the third one is what a socket reports for a link-local IPv6 sender: the zone is part of the host string
SOURCES = [("10.0.9.1", 30490), ("10.0.9.2", 30490), ("fe80::93%lo", 30490, 0, 1)]


def fmatch(f, s):
    if f[0] != s[0]:
        return False
    return all(a == w or a == b for a, b, w in zip(f[1:], s[1:], W))


def build(rng):
    window = rng.choice(((0.0, 0.0), (0.25, 0.25), (0.25, 1.25)))
    f = rng.choice((0.0, 0.25, 0.5, 1.0))
    reps = rng.randrange(0, 5)
    base = rng.choice((0.5, 0.125))
    find_ttl = rng.choice((3, 5))
    nf = rng.randrange(1, 5)
    filters = rng.sample(FILTERS, nf)
    s0 = 0.5
    v = window[0] + (window[1] - window[0]) * f
    rounds = [s0 + v]
    for i in range(reps):
        rounds.append(rounds[-1] + base * 2 ** i)
    cands = [s for s in SERVICES if any(fmatch(fl, s) for fl in filters)] or SERVICES[:2]
    events = []
    sess = [net.PeerSession() for _ in SOURCES]
    pat = []
    for _ in range(rng.choice((0, 1, 2, 2, 3, 4, 6, 8))):
        pl = rng.choice(("random", "random", "before-start", "d-eps", "d:before", "d:after", "d+eps", "between", "d-res"))
        j = rng.randrange(len(rounds))
        rank = BEFORE
        if pl == "random":
            t = rng.randrange(1, int((rounds[-1] + 1.0) * 16)) / 16.0 + 2.0 ** -7
        elif pl == "before-start":
            t = rng.choice((0.125, 0.25, 0.375))
        elif pl == "between":
            t = (rounds[j] + (rounds[j + 1] if j + 1 < len(rounds) else rounds[j] + 0.5)) / 2 + 2.0 ** -9
        else:
            # d-res: less than a clock resolution ahead of the round; the loop then runs the round in that iteration already
            t, rank = {"d-eps": (rounds[j] - EPS, BEFORE), "d:before": (rounds[j], BEFORE), "d:after": (rounds[j], AFTER),
                       "d+eps": (rounds[j] + EPS, BEFORE), "d-res": (rounds[j] - RES / 2, BEFORE)}[pl]
        svc = rng.choice(cands) if rng.random() < 0.9 else rng.choice(SERVICES)
        ttl = rng.choice((0, 1, 1, 2, FOREVER, FOREVER))
        src = rng.randrange(len(SOURCES))
        events.append([t, rank, src, svc, ttl, pl])
        pat.append((pl, ttl, SERVICES.index(svc)))
    events.sort(key=lambda e: (e[0], e[1]))
    for e in events:
        fl, sid = sess[e[2]].next()
        e.append(net.sd_bytes([net.offer(e[3][0], e[3][1], e[3][2], e[3][3], e[4], o1=[refwire.ep4(SOURCES[e[2]][0], 3000) if ":" not in SOURCES[e[2]][0] else refwire.ep6("fe80::93", 3000)] if e[4] else [])],
                              sid, reboot=fl))
    # stop + start of the discovery client ("after start" holds for every start): 0-2 restarts, the new start in the same
    # loop iteration as the stop, one or two iterations later at the same instant, or after a pause
    restarts = []
    t_prev = s0
    for _ in range(rng.choice((0, 0, 0, 1, 1, 2))):
        pl = rng.choice(("random", "between", "d-eps", "d+eps", "d:before", "d:after"))
        if pl in ("d:before", "d:after") and v == 0:
            pl = "between"
        seg_rounds = [t_prev + v]
        for i in range(reps):
            seg_rounds.append(seg_rounds[-1] + base * 2 ** i)
        j = rng.randrange(len(seg_rounds))
        rank = BEFORE
        if pl == "random":
            t = t_prev + rng.randrange(1, int((seg_rounds[-1] - t_prev + 1.0) * 16)) / 16.0 + 2.0 ** -8 + 2.0 ** -11
        elif pl == "between":
            t = (seg_rounds[j] + (seg_rounds[j + 1] if j + 1 < len(seg_rounds) else seg_rounds[j] + 0.5)) / 2 + 2.0 ** -10
        else:
            t, rank = {"d-eps": (seg_rounds[j] - EPS, BEFORE), "d:before": (seg_rounds[j], BEFORE), "d:after": (seg_rounds[j], AFTER),
                       "d+eps": (seg_rounds[j] + EPS, BEFORE)}[pl]
        if t <= t_prev + 4 * EPS:
            continue
        how = rng.choice(("same", "same", "hop1", "hop2", "later"))
        t_start = t + (rng.choice((2.0 ** -6, 0.25, 1.0)) + 2.0 ** -12 if how == "later" else 0.0)
        restarts.append(dict(stop=t, rank=rank, how=how, start=t_start, placement=pl))
        t_prev = t_start
    if rng.random() < 0.25:
        # long after the last round of the last start the application calls start() once more - the protocol-level one, without
        # a stop in between: the earlier find task has ended, so this is a start like any other
        t_again = t_prev + v + sum(base * 2 ** i for i in range(reps)) + 0.75 + 2.0 ** -11
        restarts.append(dict(stop=t_again, rank=BEFORE, how="again", start=t_again, placement="after-the-rounds"))
        t_prev = t_again
    # the filters are registered before start(), or right after it in the same loop iteration (no await in between, as
    # tools/find-subscribe.py does): the client has not taken a step yet, so both orders mean the same
    # (an offer that arrives while nothing is watched is not recorded, so only scenarios without such offers qualify)
    late_watch = rng.random() < 0.35 and all(e[0] > s0 + 4 * EPS for e in events)
    return dict(window=window, f=f, reps=reps, base=base, find_ttl=find_ttl, filters=filters, s0=s0, rounds=rounds, events=events,
                pat=tuple(pat) + tuple((r["placement"], r["how"]) for r in restarts) + (("watch-after-start",) if late_watch else ()),
                restarts=restarts, late_watch=late_watch)


def model_rounds(sc):
    """per round: (time, definite-unfound filter indices, maybe indices, found count)"""
    live = {}  # (src, svc) -> deadline
    ev = sc["events"]
    out = []
    stats = dict(expired_between=0)

    for r in sc["rounds"]:
        # events strictly before the round
        for e in ev:
            if len(e) == 7 and e[0] < r - RES:
                e.append("applied")
                for k in [k for k, d in live.items() if d != math.inf and d < e[0] - RES]:
                    del live[k]
                    stats["expired_between"] += 1
                if e[4] == 0:
                    live.pop((e[2], e[3]), None)
                else:
                    live[(e[2], e[3])] = math.inf if e[4] == FOREVER else e[0] + e[4]
        for k in [k for k, d in live.items() if d != math.inf and d < r - RES]:
            del live[k]
            stats["expired_between"] += 1
        # ambiguity: events at the round instant, deadlines at the round instant
        amb_services = set()
        for e in ev:
            if len(e) == 7 and abs(e[0] - r) <= RES:
                amb_services.add(e[3])
        for (src, svc), d in live.items():
            if d != math.inf and abs(d - r) <= RES:
                amb_services.add(svc)
        definite, maybe = [], []
        for i, fl in enumerate(sc["filters"]):
            found_sure = any(fmatch(fl, svc) for (src, svc), d in live.items() if svc not in amb_services)
            touched = any(fmatch(fl, svc) for svc in amb_services)
            if found_sure:
                continue
            (maybe if touched else definite).append(i)
        out.append((r, definite, maybe, len(sc["filters"]) - len(definite) - len(maybe)))
    for e in ev:
        while len(e) > 7:
            e.pop()
    return out, stats


def judge(ctx, sc, seed, replay):
    import someip.config as C
    import someip.sd as S

    h = Harness(random.Random(seed), draw_mode=("const", sc["f"]), max_iterations=100000)
    import zlib
    late_cfg = zlib.crc32(repr(sc["filters"]).encode()) % 2 == 0
    tm = net.timings(INITIAL_DELAY_MIN=sc["window"][0], INITIAL_DELAY_MAX=sc["window"][1], REPETITIONS_MAX=sc["reps"],
                     REPETITIONS_BASE_DELAY=sc["base"], FIND_TTL=sc["find_ttl"] + 4 if late_cfg else sc["find_ttl"])
    own = zlib.crc32(repr(sc["events"][:3]).encode() + b"own") % 3 == 0
    if own:
        # the find schedule is the discovery component's own: the stack is built with other timings (those of its offers) and the
        # component gets a Timings object of its own through its public attribute, as a ServiceInstance takes one
        import dataclasses
        other = dataclasses.replace(tm, REPETITIONS_MAX=sc["reps"] + 2, REPETITIONS_BASE_DELAY=sc["base"] * 3 + 0.125,
                                    INITIAL_DELAY_MIN=0.875, INITIAL_DELAY_MAX=0.875, FIND_TTL=tm.FIND_TTL + 9)
        prot, tr = net.make_sd(h.loop, ("10.0.9.100", 30490), timings=other)
        prot.discovery.timings = tm
        ctx.count("discovery_components_with_a_timings_object_of_their_own")
    else:
        prot, tr = net.make_sd(h.loop, ("10.0.9.100", 30490), timings=tm)
    listener = S.ClientServiceListener()

    # every other scenario a second part of the application watches the same filters for a while (a status display, say) and
    # lets go of them one by one - at registration time, before the first round, between rounds; the first listener stays, so
    # what is watched does not change
    second = S.ClientServiceListener() if zlib.crc32(repr(sc["rounds"]).encode()) % 2 == 0 else None
    made = []

    def setup():
        for fl in sc["filters"]:
            f = net.client_filter(C, fl)
            prot.discovery.watch_service(f, listener)
            if second is not None:
                prot.discovery.watch_service(f, second)
                made.append(f)
        if second is not None:
            ctx.count("scenarios_with_a_second_listener_that_lets_go_of_the_filters")
            t_set = h.loop.time()
            for i, f in enumerate(made):
                when = (None, (t_set + sc["rounds"][0]) / 2, sc["rounds"][0] + 2.0 ** -8, sc["rounds"][-1] - 2.0 ** -8)[i % 4]
                if when is None or when <= t_set:
                    prot.discovery.stop_watch_service(f, second)
                else:
                    h.at(when, prot.discovery.stop_watch_service, f, second)
        if late_cfg:
            # the application tunes the timings by assigning the fields after it has registered what it watches (create_endpoints
            # takes no timings, so assignment is the only way there): what is sent later uses the values in force then
            (prot.discovery.timings if own else prot.timings).FIND_TTL = sc["find_ttl"]
            ctx.count("find_ttl_assigned_after_the_filters_were_registered")

    # with a later start()-again the whole stack is started through the protocol-level start() from the beginning
    first_start = prot.start if any(r["how"] == "again" for r in sc.get("restarts", ())) else prot.discovery.start
    if sc.get("late_watch"):
        h.at(sc["s0"], lambda: (first_start(), setup()))
        ctx.count("filters_registered_right_after_start")
    else:
        h.at(0.0, setup)
        h.at(sc["s0"], first_start)
    for e in sc["events"]:
        h.at(e[0], prot.datagram_received, e[6], SOURCES[e[2]], False, rank=e[1])
    for r in sc.get("restarts", ()):
        if r["how"] == "again":
            h.at(r["start"], prot.start, rank=r["rank"])
        elif r["how"] == "same":
            h.at(r["stop"], lambda: (prot.discovery.stop(), prot.discovery.start()), rank=r["rank"])
        else:
            h.at(r["stop"], prot.discovery.stop, rank=r["rank"])
            h.at(r["start"], prot.discovery.start, rank=r["rank"], hops={"hop1": 1, "hop2": 2}.get(r["how"], 0))
    last_start = sc["restarts"][-1]["start"] if sc.get("restarts") else sc["s0"]
    h.run(max(sc["rounds"][-1], last_start + (sc["rounds"][-1] - sc["s0"])) + 3.0)
    problems = h.problems()
    sent = None
    try:
        sent = net.decode_sent(tr.sent)
    except refwire.RefError as exc:
        problems.append(("undecodable-transmission", repr(exc)))
    h.close()
    ctx.count("scenarios")
    if sc.get("restarts") and sent is not None and not problems:
        # every start opens a segment of its own, judged like a single start; what is sent between a stop and the next
        # start is outside the property ("after start ...") and only counted
        bounds = [(sc["s0"], None)]
        for r in sc["restarts"]:
            bounds[-1] = (bounds[-1][0], r["stop"])
            bounds.append((r["start"], None))
        nt = False
        for k, (t0, t1) in enumerate(bounds):
            nxt = bounds[k + 1][0] if k + 1 < len(bounds) else math.inf
            seg_sent = [m for m in sent if t0 - 4 * RES <= m["t"] and (m["t"] <= t1 + 4 * RES if t1 is not None else True) and m["t"] < nxt - 4 * RES]
            if t1 is not None:
                ctx.count("finds_between_stop_and_next_start", len([m for m in sent if t1 + 4 * RES < m["t"] < nxt - 4 * RES]))
            if k + 1 < len(bounds) and abs(nxt - t1) <= 4 * RES:
                # restart within one instant: a datagram of that very instant belongs to the new start (its window may open at once)
                seg_sent = [m for m in seg_sent if m["t"] < t1 - 4 * RES]
            if k > 0 and abs(t0 - bounds[k - 1][1]) <= 4 * RES:
                seg_sent = [m for m in sent if t0 - 4 * RES <= m["t"] and (m["t"] <= t1 + 4 * RES if t1 is not None else True) and m["t"] < nxt - 4 * RES]
            ctx.count("segments_after_restart" if k else "segments_before_restart")
            if k:
                ctx.count("restart_" + sc["restarts"][k - 1]["how"])
            rounds = [t0 + (sc["rounds"][0] - sc["s0"])]
            for i in range(sc["reps"]):
                rounds.append(rounds[-1] + sc["base"] * 2 ** i)
            nt = judge_segment(ctx, dict(sc, s0=t0, rounds=rounds), seg_sent, t1, replay) or nt
        return nt
    return judge_segment(ctx, sc, sent, None, replay, problems)


def judge_segment(ctx, sc, sent, t_stop, replay, problems=()):
    """one start of the client: sent = the datagrams attributed to it; t_stop = instant at which it was stopped (rounds
    later than that are not expected, a round in that very instant may or may not have left)"""
    # the property promises the first round "inside the initial-delay window": anchor the round schedule on the instant the
    # first FindService actually left (finds are not collected, so the wire instant is the decision instant)
    if sent:
        lo, hi = sc["s0"] + sc["window"][0], sc["s0"] + sc["window"][1]
        r0 = sent[0]["t"]
        if not (lo - 4 * RES <= r0 <= hi + 4 * RES):
            ctx.violation("first-find-round-outside-the-initial-delay-window",
                          dict(first_round=r0, window=(lo, hi), filters=sc["filters"]), replay)
        elif r0 != sc["rounds"][0]:
            rounds = [r0]
            for i in range(sc["reps"]):
                rounds.append(rounds[-1] + sc["base"] * 2 ** i)
            sc = dict(sc, rounds=rounds)
            ctx.count("rounds_anchored_on_observed_first_round")
    elif t_stop is not None and t_stop <= sc["s0"] + sc["window"][1] + 4 * RES:
        ctx.count("segments_stopped_before_their_first_round_was_due")
        return False  # stopped before the window closed: silence is right whatever the draw was
    elif sc["window"][0] != sc["window"][1]:
        # nothing was sent at all and the instant of the first round is only known to lie in the window: that is right iff
        # at SOME instant of the window every watched filter had a live matching offer (the round then has nothing to ask
        # and the sequence ends).  The found-set is piecewise constant, so the window's ends, every event / expiry instant
        # inside it and a point just behind each are enough to test.
        lo, hi = sc["s0"] + sc["window"][0], sc["s0"] + sc["window"][1]
        cands = {lo, hi}
        for e in sc["events"]:
            for c in (e[0], e[0] + 4 * EPS, (e[0] + e[4]) if e[4] not in (0, FOREVER) else None,
                      (e[0] + e[4] + 4 * EPS) if e[4] not in (0, FOREVER) else None):
                if c is not None and lo <= c <= hi:
                    cands.add(c)
        ctx.count("silent_first_round_window_searches")
        if any(not model_rounds(dict(sc, rounds=[c]))[0][0][1] for c in sorted(cands)):
            return True
    expected, stats = model_rounds(sc)
    ctx.count("offers_expired_between_rounds", stats["expired_between"])

    def bad(mech, **detail):
        detail.update(config={k: sc[k] for k in ("window", "f", "reps", "base", "find_ttl")}, filters=sc["filters"],
                      rounds=sc["rounds"], events=[e[:6] for e in sc["events"]],
                      sent=[(m["t"], m["dst"], [(e["type"], e["sid"], e["iid"], e["maj"], e["val"], e["ttl"]) for e in m["entries"]]) for m in (sent or [])])
        ctx.violation(mech, detail, replay)

    for p in problems:
        bad("unexpected-exception-during-run", problem=p)
    if sent is None:
        return False
    for e in sc["events"]:
        if e[5] == "d:before":
            ctx.count("event_at_round_before")
        elif e[5] == "d:after":
            ctx.count("event_at_round_after")
        elif e[5] in ("d-eps", "d+eps"):
            ctx.count("event_round_adjacent")
        elif e[5] == "d-res":
            ctx.count("event_within_resolution_before_round")
    tol = 4 * RES
    i = 0
    ended = False
    nontrivial = False
    drift = 0.0  # "later rounds follow at doubling delays": each round is timed from the one observed before it
    for r, definite, maybe, nfound in expected:
        r += drift
        obs = sent[i] if i < len(sent) and abs(sent[i]["t"] - r) <= tol else None
        if obs is not None:
            drift += obs["t"] - r
        if t_stop is not None and r >= t_stop - tol:
            if r > t_stop + tol and obs is None:
                break  # the client was stopped before this round
            if obs is None:
                break  # round in the instant of the stop: either
            if r > t_stop + tol:
                bad("find-round-sent-after-the-client-was-stopped", at=r, stopped=t_stop)
                return nontrivial
            ctx.count("round_in_the_instant_of_a_stop")
        if ended:
            if obs is not None:
                bad("find-sent-after-every-watched-service-was-found", at=r)
                return nontrivial
            continue
        if nfound or maybe:
            nontrivial = True
        if obs is None:
            if definite:
                bad("scheduled-find-round-missing", at=r, expected_filters=[sc["filters"][k] for k in definite])
                return nontrivial
            ended = True
            ctx.count("sequences_ended_all_found")
            continue
        i += 1
        ctx.count("rounds_checked")
        if nfound:
            ctx.count("rounds_with_found_filters")
        if obs["dst"] != net.MCAST:
            bad("find-not-sent-to-the-multicast-group", at=r, dst=obs["dst"])
        got = []
        for e in obs["entries"]:
            ctx.count("find_entries_checked")
            if e["type"] != 0:
                bad("discovery-client-sent-a-non-find-entry", entry=e)
                continue
            key = (e["sid"], e["iid"], e["maj"], e["val"])
            if e["ttl"] != sc["find_ttl"] or e["o1"] or e["o2"]:
                bad("find-entry-ttl-or-options-wrong", entry=e)
            if key not in sc["filters"]:
                bad("find-entry-for-a-service-that-is-not-watched-or-ids-altered", entry=key)
                continue
            got.append(sc["filters"].index(key))
        if len(set(got)) != len(got):
            bad("find-entry-repeated-in-one-round", at=r, got=got)
        missing = [k for k in definite if k not in got]
        extra = [k for k in got if k not in definite and k not in maybe]
        if missing:
            bad("unfound-watched-service-missing-from-find-round", at=r, filters=[sc["filters"][k] for k in missing])
        if extra:
            bad("find-sent-for-a-service-with-a-live-matching-offer", at=r, filters=[sc["filters"][k] for k in extra])
    if not ended and len(expected) == sc["reps"] + 1 and i == len(expected) and t_stop is None:
        ctx.count("max_rounds_reached")
    if i < len(sent):
        m = sent[i]
        mech = "more-find-rounds-than-configured" if all(e["type"] == 0 for e in m["entries"]) else "unexpected-transmission"
        if any(abs(m["t"] - r - drift) > tol for r, *_ in expected) and all(e["type"] == 0 for e in m["entries"]):
            mech = "find-round-off-schedule" if len(sent) <= len(expected) else mech
        bad(mech, at=m["t"], extra=len(sent) - i)
    return nontrivial


def shards(tier, seed):
    return [dict(shard=i, seed=seed, n=600 if tier == "quick" else 60000) for i in range(16)]


def run(spec, ctx):
    base = f"C13/{spec['seed']}/{spec['shard']}"
    for i in range(spec["n"]):
        rng = random.Random(f"{base}/{i}")
        sc = build(rng)
        nt = judge(ctx, sc, "s", dict(base=base, index=i))
        key = (sc["window"], sc["f"], sc["reps"], sc["base"], tuple(sc["filters"]), sc["pat"])
        ctx.case(key, nt, sample=dict(config={k: sc[k] for k in ("window", "f", "reps", "base", "find_ttl")}, filters=sc["filters"],
                                      rounds=sc["rounds"], events=[e[:6] for e in sc["events"]]) if i < 2 else None)


def replay(doc, ctx):
    rng = random.Random(f"{doc['base']}/{doc['index']}")
    judge(ctx, build(rng), "s", doc)
    ctx.case(("replay",), True)
