"""C01 - SOME/IP message encoding round-trips and matches the wire layout."""
from __future__ import annotations

import random

from pv import gen, refwire

ID = "C01"
LEVEL = "exploration"
RULE = (
    "seeded boundary-biased generator over (service, method, client, session: 16 bit; interface "
    "version: 8 bit; all 10x11 message-type/return-code pairs; payload length 0..64KiB; random "
    "suffix; 1..12 messages per datagram). Each message is built by the library and compared "
    "byte-for-byte with the independent reference encoder, then decoded with a suffix appended; "
    "datagrams go through a real SOMEIPDatagramProtocol.datagram_received and the recorded "
    "message_received arguments are compared with the generated list. distinct = distinct "
    "(field boundary-class vector, type, code, payload-length class, suffix class, messages per "
    "datagram); non-trivial = payload, suffix or more than one message present"
)
TECHNIQUE = "runtime differential oracle: library encoder/decoder vs independent reference codec, receive-path delivery log"
LEVEL_TEXT = ("Held on every generated message/datagram of the run (tens of thousands quick, millions plus full "
              "single-field sweeps thorough); inputs are sampled, not enumerated, except the 10x11 type/code product "
              "and the thorough sweeps, so this is exploration-level assurance of a pure function")
LEVEL_NOTE = "trusts pv/refwire.py (independent from-the-layout codec) and CPython struct; protocol version fixed to 1"
ASSUMPTIONS = [
    "reference encoder pv/refwire.py is a correct reading of the SOME/IP header layout",
    "protocol version fixed to 1 (other versions are rejected by design; that is C03)",
]
FLOORS = {
    "quick": {"build_vs_reference": 20000, "parse_roundtrip": 20000, "datagrams": 1500,
              "datagram_messages": 5000, "type_code_pairs": 110, "datagrams_after_a_malformed_one": 300, "datagrams_repeated_verbatim": 300,
              "datagrams_received_with_debug_logging_on": 600, "datagrams_received_with_debug_logging_off": 600,
              "datagrams_sent_through_the_librarys_send": 400, "datagrams_delivered_to_a_protocol_only_its_adapter_refers_to": 200, "datagrams_over_1400_bytes_sent_through_the_librarys_send": 60},
    "thorough": {"build_vs_reference": 1000000, "parse_roundtrip": 1000000, "datagrams": 50000,
                 "type_code_pairs": 110},
}


def shards(tier, seed):
    if tier == "quick":
        return [dict(shard=i, seed=seed, n_msgs=4000, n_dgrams=300, sweep=None) for i in range(8)]
    out = [dict(shard=i, seed=seed, n_msgs=400000, n_dgrams=40000, sweep=None) for i in range(16)]
    # single-field sweeps over every 16-bit value and every payload length 0..4096
    for i, field in enumerate(("sid", "mid", "cid", "sess", "iv", "paylen")):
        out.append(dict(shard=100 + i, seed=seed, n_msgs=0, n_dgrams=0, sweep=field))
    return out


def _lib_msg(H, m):
    return H.SOMEIPHeader(
        service_id=m["sid"], method_id=m["mid"], client_id=m["cid"], session_id=m["sess"],
        interface_version=m["iv"], message_type=H.SOMEIPMessageType(m["mt"]),
        return_code=H.SOMEIPReturnCode(m["rc"]), payload=m["payload"],
    )


def _same(H, parsed, m):
    return (
        parsed.service_id == m["sid"] and parsed.method_id == m["mid"]
        and parsed.client_id == m["cid"] and parsed.session_id == m["sess"]
        and parsed.protocol_version == 1 and parsed.interface_version == m["iv"]
        and int(parsed.message_type) == m["mt"] and int(parsed.return_code) == m["rc"]
        and parsed.payload == m["payload"]
        and isinstance(parsed.message_type, H.SOMEIPMessageType)
        and isinstance(parsed.return_code, H.SOMEIPReturnCode)
    )


_APP = None


def check_message(H, m, suffix, ctx):
    """the per-message oracle; returns True when it held"""
    ok = True
    lm = _lib_msg(H, m)
    built = lm.build()
    ref = refwire.encode_someip(m)
    ctx.count("build_vs_reference")
    if bytes(built) != ref:
        ctx.violation("build-differs-from-wire-layout",
                      dict(msg=m, built=bytes(built)[:64], reference=ref[:64]),
                      dict(kind="msg", msg=m, suffix=suffix))
        ok = False
    try:
        parsed, rest = H.SOMEIPHeader.parse(bytes(built) + suffix)
    except Exception as exc:  # noqa: B902 - a valid message followed by any suffix must decode
        ctx.count("parse_roundtrip")
        ctx.violation("parse-rejects-a-message-it-built:" + type(exc).__name__,
                      dict(msg=dict(m, payload=m["payload"][:32]), payload_len=len(m["payload"]), suffix=suffix[:64], exc=repr(exc)[:200]),
                      dict(kind="msg", msg=m, suffix=suffix))
        return False
    ctx.count("parse_roundtrip")
    if not _same(H, parsed, m) or parsed != lm or bytes(rest) != suffix:
        ctx.violation("parse-does-not-return-message-and-suffix",
                      dict(msg=m, suffix=suffix[:64], parsed=repr(parsed)[:300], rest=bytes(rest)[:64]),
                      dict(kind="msg", msg=m, suffix=suffix))
        ok = False
    # the decoded message is a message like any other: it encodes to the same layout (also when it was decoded from a
    # buffer that continued behind it)
    try:
        again = bytes(parsed.build())
    except Exception as exc:  # noqa: B902
        again = repr(exc)
    ctx.count("decoded_message_encoded_again")
    if again != ref:
        ctx.violation("decoded-message-encodes-differently", dict(msg=dict(m, payload=m["payload"][:32]), suffix_len=len(suffix),
                                                                  got=again[:64] if isinstance(again, bytes) else again, reference=ref[:64]),
                      dict(kind="msg", msg=m, suffix=suffix))
        ok = False
    # a message derived from the decoded one (dataclasses.replace, as the library's own reply helpers do) is a message too:
    # its length field follows ITS payload
    import dataclasses
    other = m["payload"][: len(m["payload"]) // 2] + b"\x5a" * (3 if len(m["payload"]) % 2 else 0)
    try:
        derived = bytes(dataclasses.replace(parsed, payload=other, session_id=(m["sess"] + 1) & 0xFFFF).build())
    except Exception as exc:  # noqa: B902
        derived = repr(exc)
    want = refwire.encode_someip(dict(m, payload=other, sess=(m["sess"] + 1) & 0xFFFF))
    ctx.count("derived_message_encoded")
    if derived != want:
        ctx.violation("message-derived-from-a-decoded-one-encodes-wrongly",
                      dict(msg=dict(m, payload=m["payload"][:32]), new_payload_len=len(other),
                           got=derived[:24] if isinstance(derived, bytes) else derived, reference=want[:24]),
                      dict(kind="msg", msg=m, suffix=suffix))
        ok = False
    # an application may decode through its own subclass of the message class (helper properties on top of the wire fields):
    # the decoder builds what it was asked for
    global _APP
    if _APP is None:
        class AppMessage(H.SOMEIPHeader):
            @property
            def request_id(self):
                return (self.client_id << 16) | self.session_id

        _APP = AppMessage
    try:
        sub, srest = _APP.parse(bytes(built) + suffix)
        sub_ok = type(sub) is _APP and _same(H, sub, m) and bytes(srest) == suffix and sub.request_id == (m["cid"] << 16) | m["sess"]
    except Exception as exc:  # noqa: B902
        sub_ok = repr(exc)
    ctx.count("decoded_through_a_subclass")
    if sub_ok is not True:
        ctx.violation("decoding-through-a-subclass-returns-something-else", dict(msg=dict(m, payload=m["payload"][:32]), result=sub_ok),
                      dict(kind="msg", msg=m, suffix=suffix))
        ok = False
    # the reference decoder must read the library's bytes the same way
    rm, rrest = refwire.decode_someip(bytes(built) + suffix)
    if rm != dict(m, pv=1) or rrest != suffix:
        ctx.violation("reference-decoder-disagrees", dict(msg=m, ref=rm),
                      dict(kind="msg", msg=m, suffix=suffix))
        ok = False
    return ok


_SENT = [0, 0]


class _Wire:
    def __init__(self, pieces):
        self.pieces = pieces

    def sendto(self, data, addr=None):
        self.pieces.append(bytes(data))


_ANON = {}


def _anonymous_protocol(S, got):
    if "cls" not in _ANON:
        class P(S.SOMEIPDatagramProtocol):
            def __init__(self, sink):
                super().__init__()
                self.sink = sink

            def message_received(self, someip_message, addr, mc):
                self.sink.append((someip_message, addr, mc))

        _ANON["cls"] = P
    return _ANON["cls"](got)


class _Endpoint:
    """one long-lived datagram endpoint per shard: what a datagram delivers must not depend on what the endpoint received before"""

    def __init__(self, S):
        self.got = got = []

        class P(S.SOMEIPDatagramProtocol):
            def message_received(self, someip_message, addr, mc):
                got.append((someip_message, addr, mc))

        self.p = P()


def check_datagram(S, H, msgs, multicast, ctx, endpoint=None, noise=None, repeat=0, debug=None):
    from pv import vloop

    # every other datagram is received while the library's loggers are enabled for DEBUG
    vloop.install_logging()
    debug = vloop.rotate_loglevel() if debug is None else vloop.set_loglevel(debug)
    ctx.count("datagrams_received_with_debug_logging_on" if debug else "datagrams_received_with_debug_logging_off")
    ep = endpoint or _Endpoint(S)
    if noise is not None:
        # a datagram whose tail is not a message (valid leading messages, then garbage / a truncated message), from another
        # sender: whatever the endpoint makes of it, it is not judged here (C03 does) - but it must not leak into the next one
        try:
            ep.p.datagram_received(noise, ("192.0.2.99", 30999), not multicast)
        except Exception:  # noqa: B902
            pass
        ctx.count("datagrams_after_a_malformed_one")
    del ep.got[:]
    got = ep.got
    p = ep.p
    data = b"".join(refwire.encode_someip(m) for m in msgs)
    addr = ("192.0.2.7", 30501)
    _SENT[0] += 1
    if _SENT[0] % 3 == 0:
        # the bundle leaves its sender through the library's own send(): one bundle, one datagram - what the peer's socket
        # hands over is what send() gave the transport, piece by piece
        pieces = []
        sender = S.SOMEIPDatagramProtocol()
        sender.transport = _Wire(pieces)
        sender.send(data, ("192.0.2.8", 30502))
        ctx.count("datagrams_sent_through_the_librarys_send")
        if len(data) > 1400:
            ctx.count("datagrams_over_1400_bytes_sent_through_the_librarys_send")
    else:
        pieces = [data]
    if len(pieces) == 1:
        data = pieces[0]
    if len(pieces) != 1:
        for piece in pieces:
            try:
                p.datagram_received(piece, addr, multicast)
            except Exception:  # noqa: B902
                pass
    elif debug:
        p.datagram_received(data, addr, multicast)
    else:
        # through the adapter that create_unicast_endpoint() / create_endpoints() put between the socket and the protocol object
        _SENT[1] += 1
        if _SENT[1] % 3 == 1:
            # the application keeps the transport (here: the adapter asyncio holds for it) and lets go of the protocol object
            # it built in the factory call: `transport, _ = await Sniffer.create_unicast_endpoint(...)`
            adapter = S.DatagramProtocolAdapter(_anonymous_protocol(S, got), is_multicast=multicast)
            try:
                adapter.datagram_received(data, addr)
            except ReferenceError as exc:
                ctx.violation("adapter-lost-the-protocol-object-it-delivers-to", dict(exc=repr(exc)),
                              dict(kind="dgram", msgs=msgs, multicast=multicast, noise=noise, repeat=repeat, debug=debug))
                return False
            ctx.count("datagrams_delivered_to_a_protocol_only_its_adapter_refers_to")
        else:
            S.DatagramProtocolAdapter(p, is_multicast=multicast).datagram_received(data, addr)
        ctx.count("datagrams_delivered_through_the_endpoint_adapter")
    if repeat:
        # the same bytes again from the same peer (an unchanged cyclic event bundle, a repeated fire-and-forget call with
        # session handling off): every datagram is delivered, whatever came before it
        for _ in range(repeat):
            p.datagram_received(data, addr, multicast)
        msgs = list(msgs) * (repeat + 1)
        ctx.count("datagrams_repeated_verbatim", repeat)
    ctx.count("datagrams")
    ctx.count("datagram_messages", len(msgs))
    ok = len(got) == len(msgs) and all(
        _same(H, g[0], m) and g[1] == addr and g[2] == multicast for g, m in zip(got, msgs)
    )
    if not ok:
        ctx.violation("datagram-messages-not-delivered-one-by-one-in-order",
                      dict(expected=len(msgs), delivered=len(got),
                           delivered_ids=[(g[0].service_id, g[0].method_id, g[0].session_id) for g in got][:12],
                           expected_ids=[(m["sid"], m["mid"], m["sess"]) for m in msgs][:12]),
                      dict(kind="dgram", msgs=msgs[: len(msgs) // (repeat + 1)], multicast=multicast, noise=noise, repeat=repeat, debug=debug))
    return ok


def gen_msg(rng, maxpay=65536 + 8, mt=None, rc=None):
    sid, c1 = gen.u16(rng)
    mid, c2 = gen.u16(rng)
    cid, c3 = gen.u16(rng)
    sess, c4 = gen.u16(rng)
    iv, c5 = gen.u8(rng)
    n, c6 = gen.paylen(rng, maxpay)
    n = min(n, maxpay)
    if mt is None:
        mt = rng.choice(refwire.MSG_TYPES)
    if rc is None:
        rc = rng.choice(refwire.RET_CODES)
    m = dict(sid=sid, mid=mid, cid=cid, sess=sess, iv=iv, mt=mt, rc=rc, payload=gen.rbytes(rng, n))
    return m, (c1, c2, c3, c4, c5, mt, rc, c6)


def gen_suffix(rng):
    r = rng.random()
    if r < 0.3:
        return b"", "none"
    if r < 0.6:
        return gen.rbytes(rng, rng.randrange(1, 40)), "random"
    if r < 0.8:
        m, _ = gen_msg(rng, 32)
        return refwire.encode_someip(m), "looks-like-message"
    m, _ = gen_msg(rng, 32)
    return refwire.encode_someip(m)[: rng.randrange(1, 16)], "truncated-header"


def run(spec, ctx):
    import someip.header as H
    import someip.sd as S

    rng = random.Random(f"C01/{spec['seed']}/{spec['shard']}")
    sweep = spec.get("sweep")
    if sweep:
        base, _ = gen_msg(rng, 16)
        if sweep == "paylen":
            for n in range(0, 4097):
                m = dict(base, payload=gen.rbytes(rng, n))
                check_message(H, m, b"\x01\x02", ctx)
                ctx.case(("sweep", sweep, n), True)
        else:
            width = 256 if sweep == "iv" else 65536
            for v in range(width):
                m = dict(base, **{sweep: v})
                check_message(H, m, b"", ctx)
                ctx.case(("sweep", sweep, v), True)
        ctx.count("sweeps_completed")
        ctx.note("sweeps", sweep)
        return
    pairs = [(mt, rc) for mt in refwire.MSG_TYPES for rc in refwire.RET_CODES]
    seen_pairs = set()
    for i in range(spec["n_msgs"]):
        mt, rc = pairs[i % len(pairs)] if i < 2 * len(pairs) else rng.choice(pairs)
        m, key = gen_msg(rng, mt=mt, rc=rc)
        suffix, sclass = gen_suffix(rng)
        check_message(H, m, suffix, ctx)
        seen_pairs.add((mt, rc))
        nontrivial = bool(m["payload"]) or bool(suffix)
        ctx.case(("msg", key, sclass), nontrivial,
                 sample=dict(kind="message", fields={k: v for k, v in m.items() if k != "payload"},
                             payload_len=len(m["payload"]), suffix_class=sclass) if i < 1 else None)
        ctx.note("payload_length_classes", key[-1])
        ctx.note("suffix_classes", sclass)
    if spec["shard"] == 0:
        ctx.count("type_code_pairs", len(seen_pairs))
    endpoint = _Endpoint(S)
    for i in range(spec["n_dgrams"]):
        k = rng.choice((1, 2, 2, 3, 3, 4, 5, 8, 12))
        msgs, keys = [], []
        for _ in range(k):
            m, key = gen_msg(rng, 600 if k > 2 else 8000)
            msgs.append(m)
            keys.append((key[-3], key[-1]))
        mc = rng.random() < 0.3
        noise = None
        if rng.random() < 0.3:
            lead = b"".join(refwire.encode_someip(gen_msg(rng, 40)[0]) for _ in range(rng.choice((1, 1, 2, 3))))
            tail, _cls = gen_suffix(rng)
            noise = lead + (tail if _cls not in ("none", "looks-like-message") else refwire.encode_someip(gen_msg(rng, 40)[0])[:rng.randrange(1, 20)])
        check_datagram(S, H, msgs, mc, ctx, endpoint if i % 4 else None, noise, rng.choice((1, 2)) if i % 6 == 1 else 0)
        ctx.case(("dgram", k, tuple(keys), mc), k > 1,
                 sample=dict(kind="datagram", messages=k, multicast=mc,
                             ids=[(m["sid"], m["mid"], len(m["payload"])) for m in msgs]) if i < 1 else None)
        ctx.note("messages_per_datagram", str(k))


def replay(doc, ctx):
    import someip.header as H
    import someip.sd as S

    if doc["kind"] == "msg":
        check_message(H, doc["msg"], doc["suffix"], ctx)
    else:
        check_datagram(S, H, doc["msgs"], doc["multicast"], ctx, None, doc.get("noise"), doc.get("repeat", 0), doc.get("debug"))
    ctx.case(("replay",), True)
