"""C03 - malformed or foreign input is rejected cleanly and changes nothing."""
from __future__ import annotations

import gc
import functools
import random
import sys
import types

from pv import corpus, gen, net, refwire, sdgen
from pv.vloop import Harness, BEFORE, AFTER

ID = "C03"
LEVEL = "exploration"
TECHNIQUE = ("runtime exception-class oracle on all four decoders vs reference accept/reject prediction, sys.monitoring step "
             "counter for termination, live receive paths under fuzz, twin runs with/without rejected datagrams")
LEVEL_TEXT = ("Held on every input of the run: (a) each decoder's outcome class (value+suffix / parse error / unicode error) equals "
              "the independent prediction and no other exception escapes, with a line-step budget deciding termination; (b) no "
              "exception leaves datagram_received of a live discovery endpoint and a live service endpoint or reaches the loop's "
              "exception handler; (c) seeded background scenarios run twice, with and without rejected datagrams injected at "
              "random and adversarial instants, give identical listener logs, transmissions and final state. Sampled inputs")
LEVEL_NOTE = ("trusts pv/refwire.py's accept/reject prediction (mirrors the decoder's documented leniencies); twin comparison of "
              "stores/session tables uses optional probes on private attributes, boundary logs alone decide when they are gone")
RULE = (
    "corpus = arbitrary byte strings 0..2048 and, mainly, reference-encoded SOME/IP / SD messages, entries and options under "
    "bit flips, byte replacement, truncation, insertion, deletion, region duplication, every length/count/index field set to "
    "{0,1,true-1,true+1,max,random}, option payload corruption, non-ASCII bytes in config text. distinct = distinct (monitor, "
    "mutation kind, outcome class, input hash); non-trivial = input is not an unmutated valid message"
)
ASSUMPTIONS = ["a message 'that is not a decodable SD notification' = wrong service/method/interface version/message type/return "
               "code, or SD payload the decoder rejects",
               "for unicast-flag-clear messages only the foreign sender's own session entry may differ between twins"]
FLOORS = {"quick": {"decoder_outcomes_checked": 50000, "class_parse": 10000, "class_ok": 10000, "class_unicode": 150,
                    "step_counted_calls": 5000, "live_sd_datagrams": 5000, "live_sd_subscription_episodes": 100, "live_service_datagrams": 2000,
                    "twin_runs": 200, "twin_rejected_messages_bundled_behind_a_genuine_one": 50, "undecodable_datagrams_handed_to_an_endpoint_without_a_transport": 300, "twin_injected_datagrams": 600, "twin_flagclear_runs": 40, "twin_flagclear_messages_inside_a_known_peers_session_sequence": 60,
                    "twin_background_callbacks": 2000, "twin_background_transmissions": 4000}}


class StepBudgetExceeded(BaseException):
    pass


class StepCounter:
    """counts LINE events inside someip.header during one call; raises beyond the budget"""

    TOOL = 5

    def __init__(self, H):
        self.n = 0
        self.budget = 1 << 60
        self.codes = []
        seen = set()

        def add(code):
            if id(code) in seen:
                return
            seen.add(id(code))
            self.codes.append(code)
            for c in code.co_consts:
                if isinstance(c, types.CodeType):
                    add(c)

        for o in gc.get_objects():
            if isinstance(o, types.FunctionType) and o.__code__.co_filename == H.__file__:
                add(o.__code__)
        mon = sys.monitoring
        mon.use_tool_id(self.TOOL, "pv-steps")
        mon.register_callback(self.TOOL, mon.events.LINE, self._line)
        self.enabled = False

    def _line(self, code, line):
        self.n += 1
        if self.n > self.budget:
            raise StepBudgetExceeded(f"{self.n} line steps")

    def enable(self, on):
        if on == self.enabled:
            return
        mon = sys.monitoring
        for c in self.codes:
            mon.set_local_events(self.TOOL, c, mon.events.LINE if on else 0)
        self.enabled = on

    def call(self, fn, args, nbytes):
        self.n = 0
        self.budget = 200 * nbytes + 2000
        self.enable(True)
        try:
            return fn(*args)
        finally:
            self.enable(False)


def outcome_of(H, fn, args, steps=None, nbytes=0):
    try:
        v, rest = steps.call(fn, args, nbytes) if steps else fn(*args)
        return "ok", v, rest
    except H.ParseError:
        return "parse", None, None
    except UnicodeDecodeError:
        return "unicode", None, None
    except StepBudgetExceeded as exc:
        return "nontermination", repr(exc), None
    except BaseException as exc:  # noqa: B036 - that is the point
        return "foreign:" + type(exc).__name__, repr(exc), None


def judge(H, ctx, name, fn, args, b, expected, replay, steps=None):
    out, v, rest = outcome_of(H, fn, args, steps, len(b))
    ctx.count("decoder_outcomes_checked")
    ctx.count("class_" + expected[0])
    if steps:
        ctx.count("step_counted_calls")
        ctx.note("max_steps_per_byte", str(min(50, steps.n // max(1, len(b)))))
    if out == "nontermination":
        ctx.violation("decoder-exceeds-step-budget", dict(decoder=name, input=b[:200], info=v), replay)
        return out
    if out.startswith("foreign:"):
        ctx.violation("foreign-exception-escapes-decoder:" + out[8:], dict(decoder=name, exc=v, input=b[:200]), replay)
        return out
    if out != expected[0]:
        if out == "unicode":
            mech = "unicode-error-outside-config-text"
        elif out == "ok":
            mech = "decoder-accepts-input-the-format-rejects"
        elif expected[0] == "ok":
            mech = "decoder-rejects-wellformed-input"
        else:
            mech = "wrong-error-class"
        ctx.violation(mech, dict(decoder=name, got=out, expected=expected[0], input=b[:200]), replay)
        return out
    if out == "ok":
        consumed = expected[1]
        if bytes(rest) != b[consumed:]:
            ctx.violation("decoder-rest-is-not-the-unconsumed-suffix",
                          dict(decoder=name, consumed_expected=consumed, rest_len=len(rest), input_len=len(b), input=b[:200]), replay)
    return out


# ---------------------------------------------------------------------------------- (a) decoders
def decoder_case(H, rng, ctx, replay, steps):
    r = rng.random()
    use_steps = None
    if r < 0.08:
        b = gen.rbytes(rng, rng.choice((0, 1, 3, 11, 12, 15, 16, 17, 40, 200, 2048)))
        which = rng.choice(("someip", "sd", "option", "entry"))
        desc = ("random",)
        if rng.random() < 0.1:
            use_steps = steps
    else:
        which = rng.choice(("sd", "sd", "sd", "someip", "someip+sd", "option", "entry"))
        if which == "sd":
            lay, _ = corpus.gen_sd_payload(rng, canonical=rng.random() < 0.3)
        elif which == "someip":
            lay, _ = corpus.gen_someip(rng)
        elif which == "someip+sd":
            sl, _ = corpus.gen_sd_payload(rng)
            lay, _ = corpus.wrap_sd(rng, sl)
            which = "someip"
        elif which == "option":
            t, body = corpus.noncanon_option(rng, sdgen.gen_option(rng))
            lay = corpus.Layout()
            lay.put(refwire.be(len(body), 2), "option_length")
            lay.put(bytes([t]), "option_type")
            off = len(lay.buf)
            lay.opt_bodies.append((off, len(body)))
            if t == 1:
                p = 1
                while body[p] != 0:
                    lay.fields.append(("config_strlen", off + p, 1, body[p]))
                    lay.cfg_text.append((off + p + 1, body[p]))
                    p += 1 + body[p]
            lay.put(body)
        else:
            f, _ = sdgen.gen_entry_fields(rng)
            f.update(i1=rng.randrange(8), i2=rng.randrange(8), n1=rng.randrange(4), n2=rng.randrange(4))
            lay = corpus.Layout()
            e = refwire.encode_entry(f)
            lay.put(e[0:1], "entry_type")
            lay.put(e[1:2], "index1")
            lay.put(e[2:3], "index2")
            lay.put(e[3:4], "counts")
            lay.put(e[4:12])
            lay.put(e[12:16], "entry_val")
        if rng.random() < 0.12:
            b, desc = bytes(lay.buf), ("unmutated",)
        else:
            b, desc = corpus.mutate(rng, lay)
            if rng.random() < 0.15:
                lay2 = corpus.Layout()
                lay2.buf = bytearray(b)
                lay2.fields, lay2.cfg_text, lay2.opt_bodies = lay.fields, lay.cfg_text, lay.opt_bodies
                if len(b) == len(lay.buf):
                    b, d2 = corpus.mutate(rng, lay2)
                    desc = desc + d2
        if rng.random() < 0.15:
            b += gen.rbytes(rng, rng.randrange(1, 9))
        if desc[0] == "field" or rng.random() < 0.1:
            use_steps = steps
    if which == "someip":
        out = judge(H, ctx, "SOMEIPHeader.parse", H.SOMEIPHeader.parse, (b,), b, refwire.classify_someip(b), replay, use_steps)
    elif which == "sd":
        out = judge(H, ctx, "SOMEIPSDHeader.parse", H.SOMEIPSDHeader.parse, (b,), b, refwire.classify_sd(b), replay, use_steps)
    elif which == "option":
        c = refwire.classify_option(b)
        out = judge(H, ctx, "SOMEIPSDOption.parse", H.SOMEIPSDOption.parse, (b,), b, c[:2] if c[0] == "ok" else c, replay, use_steps)
    else:
        nopt = rng.choice((0, 1, 4, 8, 255))
        out = judge(H, ctx, "SOMEIPSDEntry.parse", H.SOMEIPSDEntry.parse, (b, nopt), b, refwire.classify_entry(b, nopt), replay, use_steps)
    return (which, desc[0], out, b), desc[0] != "unmutated"


# ---------------------------------------------------------------------------------- (b) live receive paths
PUT = ("10.0.0.1", 30490)
PEER_A = ("10.0.0.2", 30490)
PEER_B = ("10.0.0.3", 30490)
FOREIGN = ("10.0.0.66", 30490)
SVC_LOCAL = dict(sid=0x2222, iid=1, maj=1, minor=5, eg=(1, 2))
SVC_REMOTE = dict(sid=0x1111, iid=1, maj=2, minor=0)
SVC_SIMPLE = 0x2223  # same instance, major version and eventgroups (1, 2) as SVC_LOCAL


def local_sid(rng):
    return rng.choice((SVC_LOCAL["sid"], SVC_SIMPLE))


class RecListener:
    def __init__(self, loop, log, name):
        self.loop, self.log, self.name = loop, log, name

    def service_offered(self, service, source):
        self.log.append((self.loop.time(), self.name, "offered", service.service_id, service.instance_id, source))

    def service_stopped(self, service, source):
        self.log.append((self.loop.time(), self.name, "stopped", service.service_id, service.instance_id, source))

    def client_subscribed(self, sub, source):
        self.log.append((self.loop.time(), self.name, "subscribed", sub.id, sub.counter, source))

    def client_unsubscribed(self, sub, source):
        self.log.append((self.loop.time(), self.name, "unsubscribed", sub.id, sub.counter, source))


def build_put(h, collect=2.0 ** -8):
    """a live discovery endpoint with all three components busy"""
    import someip.config as C
    import someip.header as H
    import someip.sd as S

    tm = net.timings(INITIAL_DELAY_MIN=0.0, INITIAL_DELAY_MAX=0.25, REQUEST_RESPONSE_DELAY_MIN=2.0 ** -6,
                     REQUEST_RESPONSE_DELAY_MAX=2.0 ** -4, REPETITIONS_MAX=2, REPETITIONS_BASE_DELAY=2.0 ** -4,
                     CYCLIC_OFFER_DELAY=1, FIND_TTL=3, ANNOUNCE_TTL=3, SUBSCRIBE_TTL=5, SUBSCRIBE_REFRESH_INTERVAL=3,
                     SEND_COLLECTION_TIMEOUT=collect)
    prot, tr = net.make_sd(h.loop, PUT, timings=tm)
    cb = []
    l1 = RecListener(h.loop, cb, "watch")
    l2 = RecListener(h.loop, cb, "all")
    l3 = RecListener(h.loop, cb, "server")

    def setup():
        prot.discovery.watch_service(C.Service(SVC_REMOTE["sid"]), l1)
        prot.discovery.watch_all_services(l2)
        svc = C.Service(SVC_LOCAL["sid"], SVC_LOCAL["iid"], SVC_LOCAL["maj"], SVC_LOCAL["minor"],
                        eventgroups=frozenset(SVC_LOCAL["eg"]))
        inst = S.ServiceInstance(svc, l3, prot.announcer, tm)
        prot.announcer.announce_service(inst)
        eg = C.Eventgroup(service_id=0x3333, instance_id=1, major_version=1, eventgroup_id=7,
                          sockname=("10.0.0.1", 40000), protocol=H.L4Protocols.UDP)
        prot.subscriber.subscribe_eventgroup(eg, PEER_A)
        # a second announced service is the library's own SimpleService (its subscription handling is on the receive path of
        # every Subscribe / StopSubscribe / reboot message for it, whatever the bytes were)
        import someip.service as SV

        class Simple(SV.SimpleService):
            service_id = SVC_SIMPLE
            version_major = 1
            version_minor = 5

            def client_subscribed(self, sub, source):
                cb.append((h.loop.time(), "simple", "subscribed", sub.id, sub.counter, source))
                return super().client_subscribed(sub, source)

            def client_unsubscribed(self, sub, source):
                cb.append((h.loop.time(), "simple", "unsubscribed", sub.id, sub.counter, source))
                return super().client_unsubscribed(sub, source)

        simple = Simple(instance_id=1)
        simple.transport = net.RecTransport(h.loop, ("10.0.0.1", 30509))
        for g in (1, 2):
            evg = SV.SimpleEventgroup(simple, id=g)
            evg.values[0x10 + g] = b"v"
            simple.register_eventgroup(evg)
        simple.start_announce(prot.announcer)
        prot._pv_simple = simple
        prot.start()

    h.at(0.0, setup)
    return prot, tr, cb


def passive_endpoints(ctx, rng, replay):
    """endpoints that only listen - a monitor that registers listeners and never sends, or any endpoint in the window between
    the creation of its first socket and the assignment of its transport attribute: no transport object yet; what cannot be
    decoded is dropped there like anywhere else"""
    import someip.sd as S
    import someip.service as SV

    class Sniffer(S.SOMEIPDatagramProtocol):
        def message_received(self, someip_message, addr, multicast):
            pass

    class Svc(SV.SimpleService):
        service_id = 0x2222
        version_major = 1
        version_minor = 0

    for name, ep in (("discovery", S.ServiceDiscoveryProtocol(net.MCAST)), ("plain", Sniffer()), ("service", Svc(instance_id=1))):
        for kind in ("garbage", "truncated", "bad_version"):
            data = rejected_datagram(rng, kind)
            mc = rng.random() < 0.5
            src = rng.choice((PEER_A, ("2001:db8::5", 30490, 0, 0)))
            try:
                if rng.random() < 0.5:
                    S.DatagramProtocolAdapter(ep, is_multicast=mc).datagram_received(data, src)
                else:
                    ep.datagram_received(data, src, mc)
            except BaseException as exc:  # noqa: B036
                ctx.violation("exception-leaves-datagram_received:" + type(exc).__name__,
                              dict(endpoint=name + " (no transport assigned)", exc=repr(exc), datagram=data[:80]), replay)
                return
            ctx.count("undecodable_datagrams_handed_to_an_endpoint_without_a_transport")


def live_sd(ctx, spec, rng):
    """fuzz corpus into datagram_received of a live SD endpoint"""
    for _ in range(max(1, spec["n"] // 100)):
        passive_endpoints(ctx, rng, dict(kind="whole-shard"))
    h = Harness(rng, draw_mode="rand", max_iterations=4000000)
    prot, tr, cb = build_put(h)
    escaped = []
    state = dict(i=-1)
    datagrams = []

    import someip.sd as _S

    adapters = {mc: _S.DatagramProtocolAdapter(prot, is_multicast=mc) for mc in (False, True)}

    def inject(i, data, src, mc):
        state["i"] = i
        try:
            if i % 2:
                # the way datagrams arrive in a deployment: through the adapter that create_endpoints() puts between each of
                # the two sockets and the protocol object
                adapters[mc].datagram_received(data, src)
            else:
                prot.datagram_received(data, src, mc)
        except BaseException as exc:  # noqa: B036
            escaped.append((i, type(exc).__name__, repr(exc)))

    t = 0.5
    episode = []
    for i in range(spec["n"]):
        r = rng.random()
        if episode:
            data, desc, ep_src = episode.pop(0)
        elif r < 0.04:
            # an episode from one subscriber: a valid Subscribe, the same Subscribe again with one count / index / length field
            # corrupted (or its option run emptied), then a message that ends the subscription - whatever the corrupted copy
            # did to the records, ending them must not raise
            ep_src = rng.choice((PEER_A, PEER_B, FOREIGN))
            sid, egid, cnt = local_sid(rng), rng.choice((1, 2)), rng.choice((0, 1))
            ep = [refwire.ep4("10.0.0.3", 4000)]
            good = net.sd_bytes([net.subscribe(sid, 1, 1, egid, rng.choice((3, 0xFFFFFF)), counter=cnt, o1=ep)], rng.randrange(1, 0x8000), reboot=False)
            bad = bytearray(net.sd_bytes([net.subscribe(sid, 1, 1, egid, rng.choice((3, 0xFFFFFF)), counter=cnt, o1=ep)], rng.randrange(0x8000, 0x10000), reboot=False))
            how = rng.choice(("count0", "count2", "index", "field"))
            if how == "count0":
                bad[16 + 8 + 3] = 0x00      # number of options of the entry: none
            elif how == "count2":
                bad[16 + 8 + 3] = 0x11      # one option in each run
            elif how == "index":
                bad[16 + 8 + 1] = rng.choice((1, 0xFF))
            else:
                lay = corpus.Layout()
                lay.buf = bad
                bad = bytearray(corpus.mutate(rng, lay, "byte")[0])
            end = rng.choice((
                net.sd_bytes([net.subscribe(sid, 1, 1, egid, 0, counter=cnt, o1=ep)], 0xFFF0, reboot=False),
                net.sd_bytes([net.find(0x7777)], 1, reboot=True),
                net.sd_bytes([net.subscribe(sid, 1, 1, egid, 0, counter=cnt)], 0xFFF0, reboot=False)))
            episode = [(bytes(bad), ("episode:corrupted-copy", how), ep_src), (end, ("episode:end",), ep_src)]
            data, desc = good, ("episode:valid-subscribe",)
            ctx.count("live_sd_subscription_episodes")
        elif r < 0.55:
            sl, _ = corpus.gen_sd_payload(rng, canonical=rng.random() < 0.5)
            lay, _ = corpus.wrap_sd(rng, sl)
            data, desc = corpus.mutate(rng, lay) if rng.random() < 0.75 else (bytes(lay.buf), ("unmutated",))
        elif r < 0.7:
            # semantically meaningful SD traffic aimed at the live state, then mutated
            ents = rng.choice((
                [net.offer(SVC_REMOTE["sid"], 1, 2, 0, ttl=rng.choice((0, 1, 3, 0xFFFFFF)), o1=[refwire.ep4("10.0.0.2", 3000)])],
                [net.find(local_sid(rng))],
                [net.subscribe(local_sid(rng), 1, 1, rng.choice((1, 2, 9)), ttl=rng.choice((0, 3, 0xFFFFFF)),
                               o1=[refwire.ep4("10.0.0.3", 4000)] * rng.choice((0, 1, 1, 2)))],
            ))
            raw = net.sd_bytes(ents, rng.randrange(1, 0x10000), reboot=rng.random() < 0.5)
            lay = corpus.Layout()
            lay.buf = bytearray(raw)
            data, desc = corpus.mutate(rng, lay, rng.choice(("bitflip", "byte", "trunc", "insert"))) if rng.random() < 0.5 else (raw, ("valid-traffic",))
        elif r < 0.85:
            lay, _ = corpus.gen_someip(rng, sd=rng.random() < 0.5)
            data, desc = corpus.mutate(rng, lay)
        elif r < 0.93:
            sl, _ = corpus.gen_sd_payload(rng, canonical=True)
            lay, _ = corpus.wrap_sd(rng, sl)
            data, desc = bytes(lay.buf) + gen.rbytes(rng, rng.randrange(1, 30)), ("valid+garbage",)
        else:
            data, desc = gen.rbytes(rng, rng.choice((0, 1, 8, 15, 16, 17, 64, 2048))), ("random",)
        src = rng.choice((PEER_A, PEER_B, FOREIGN, ("2001:db8::5", 30490, 0, 0)))
        mc = rng.random() < 0.3
        if desc[0].startswith("episode"):
            src, mc = ep_src, False
        t += 2.0 ** -6
        datagrams.append((data, src, mc, desc))
        h.at(t, inject, i, data, src, mc)
        ctx.count("live_sd_datagrams")
        ctx.case(("live-sd", desc[0], data), desc[0] not in ("unmutated", "valid-traffic"),
                 sample=dict(monitor="live discovery endpoint", mutation=desc, datagram=data[:80], multicast=mc) if i < 1 else None)
    h.run(t + 12.0)
    for i, tn, rp in escaped[:5]:
        d = datagrams[i]
        ctx.violation("exception-leaves-datagram_received:" + tn,
                      dict(endpoint="discovery", exc=rp, datagram=d[0][:300], multicast=d[2], mutation=d[3]),
                      dict(kind="live-sd", data=d[0], src=d[1], multicast=d[2]))
    for p in h.problems():
        if p[0] in ("loop_exception_handler", "task_failed", "iteration_budget_exceeded"):
            ctx.violation("exception-reaches-loop-handler-after-datagram", dict(endpoint="discovery", problem=p),
                          dict(kind="live-sd-shard", spec=spec))
    ctx.count("live_sd_logged_exceptions", len(h.log.unexpected()))
    ctx.count("live_sd_listener_callbacks", len(cb))
    ctx.count("live_sd_transmissions", len(tr.sent))
    h.close()


def make_service(h):
    import someip.service as SV

    class Svc(SV.SimpleService):
        service_id = 0x2222
        version_major = 1
        version_minor = 5

    res = {}

    def setup():
        s = Svc(instance_id=1)
        s.transport = net.RecTransport(h.loop, ("10.0.0.1", 30509))
        s.register_method(1, lambda m, a: b"ok" + m.payload[:4])
        s.register_method(2, lambda m, a: None)

        def rej(tag, m, a):
            raise SV.MalformedMessageError()

        # (a handler need not be a function: a functools.partial has no __name__, for one)
        s.register_method(3, functools.partial(rej, "slot-3"))
        eg = SV.SimpleEventgroup(s, id=1, interval=1)
        eg.values[1] = b"v"
        s.register_eventgroup(eg)
        res["s"] = s

    h.at(0.0, setup)
    h.run(0.0)
    return res["s"]


def live_service(ctx, spec, rng):
    h = Harness(rng, max_iterations=2000000)
    svc = make_service(h)
    escaped = []
    datagrams = []

    def inject(i, data, src, mc):
        try:
            svc.datagram_received(data, src, mc)
        except BaseException as exc:  # noqa: B036
            escaped.append((i, type(exc).__name__, repr(exc)))

    t = 0.25
    for i in range(spec["n"]):
        r = rng.random()
        if r < 0.6:
            payload = gen.rbytes(rng, rng.choice((0, 1, 8, 100)))
            m = dict(sid=rng.choice((0x2222, 0x2222, 0x2223)), mid=rng.choice((1, 2, 3, 4, 0x8001)), cid=rng.randrange(1 << 16),
                     sess=rng.randrange(1 << 16), iv=rng.choice((1, 1, 2)), mt=rng.choice(refwire.MSG_TYPES),
                     rc=rng.choice((0, 0, 0, 1, 10)), payload=payload)
            lay = corpus.Layout()
            lay.buf = bytearray(refwire.encode_someip(m))
            lay.fields = [("length", 4, 4, len(payload) + 8), ("protocol_version", 12, 1, 1), ("message_type", 14, 1, m["mt"]),
                          ("return_code", 15, 1, m["rc"])]
            data, desc = corpus.mutate(rng, lay) if rng.random() < 0.6 else (bytes(lay.buf), ("valid-traffic",))
            if rng.random() < 0.2:
                data = data + data
        elif r < 0.85:
            lay, _ = corpus.gen_someip(rng)
            data, desc = corpus.mutate(rng, lay)
        else:
            data, desc = gen.rbytes(rng, rng.choice((0, 1, 15, 16, 17, 200, 2048))), ("random",)
        src = rng.choice((PEER_A, ("2001:db8::5", 30509, 0, 0)))
        mc = rng.random() < 0.2
        t += 2.0 ** -7
        datagrams.append((data, src, mc, desc))
        h.at(t, inject, i, data, src, mc)
        ctx.count("live_service_datagrams")
        ctx.case(("live-svc", desc[0], data), desc[0] != "valid-traffic")
    h.run(t + 3.0)
    for i, tn, rp in escaped[:5]:
        d = datagrams[i]
        ctx.violation("exception-leaves-datagram_received:" + tn,
                      dict(endpoint="service", exc=rp, datagram=d[0][:300], multicast=d[2], mutation=d[3]),
                      dict(kind="live-svc", data=d[0], src=d[1], multicast=d[2]))
    for p in h.problems():
        if p[0] in ("loop_exception_handler", "task_failed", "iteration_budget_exceeded"):
            ctx.violation("exception-reaches-loop-handler-after-datagram", dict(endpoint="service", problem=p),
                          dict(kind="live-svc-shard", spec=spec))
    ctx.count("live_service_replies", len(svc.transport.sent))
    h.close()


# ---------------------------------------------------------------------------------- (c) twin runs
def background_script(rng, slots=False):
    """seeded genuine traffic from two peers: list of (time, data, src, multicast).  With slots, some messages of the two
    peers are placeholders (data None, then the reboot flag and session id the peer would use): the caller fills them with SD
    messages whose unicast flag is clear, in the peers' own session sequences"""
    A, B = net.PeerSession(), net.PeerSession()
    ev = []
    t = 0.0
    while t < 9.0:
        t += rng.choice((2.0 ** -5, 2.0 ** -3, 0.25, 0.5, 1.0))
        if slots and rng.random() < 0.25:
            peer, src = rng.choice(((A, PEER_A), (B, PEER_B)))
            mc = rng.random() < 0.5
            fl, sid = peer.next("m" if mc else "u")
            ev.append((t, None, src, mc, fl, sid))
            if rng.random() < 0.5:
                continue
        r = rng.random()
        if r < 0.35:
            mc = rng.random() < 0.6
            fl, sid = A.next("m" if mc else "u")
            ttl = rng.choice((1, 2, 3, 3, 0xFFFFFF))
            ev.append((t, net.sd_bytes([net.offer(SVC_REMOTE["sid"], rng.choice((1, 1, 2)), 2, 0, ttl,
                                                  o1=[refwire.ep4("10.0.0.2", 3000)])], sid, reboot=fl), PEER_A, mc))
        elif r < 0.45:
            fl, sid = A.next("u")
            ev.append((t, net.sd_bytes([net.offer(SVC_REMOTE["sid"], 1, 2, 0, 0)], sid, reboot=fl), PEER_A, False))
        elif r < 0.52:
            A.reboot()
        elif r < 0.7:
            mc = rng.random() < 0.5
            fl, sid = B.next("m" if mc else "u")
            ev.append((t, net.sd_bytes([net.find(local_sid(rng), rng.choice((1, 0xFFFF)))], sid, reboot=fl), PEER_B, mc))
        elif r < 0.92:
            fl, sid = B.next("u")
            ttl = rng.choice((0, 2, 3, 3, 0xFFFFFF))
            ev.append((t, net.sd_bytes([net.subscribe(local_sid(rng), 1, 1, rng.choice((1, 2)), ttl, counter=rng.choice((0, 1)),
                                                      o1=[refwire.ep4("10.0.0.3", 4000)])], sid, reboot=fl), PEER_B, False))
        else:
            B.reboot()
    return ev


def rejected_datagram_field(rng, kind, b):
    b = bytearray(b)
    if kind == "service":
        b[0:2] = rng.choice((b"\xff\xfe", b"\x00\x00", b"\x22\x22", b"\x81\x00"))
    elif kind == "method":
        b[2:4] = rng.choice((b"\x81\x01", b"\x00\x00", b"\x01\x00", b"\xff\xff"))
    elif kind == "interface_version":
        b[13] = rng.choice((0, 2, 0xFF))
    elif kind == "message_type":
        b[14] = rng.choice((0, 1, 0x80, 0x81))
    elif kind == "return_code":
        b[15] = rng.choice((1, 2, 10))
    return bytes(b)


def rejected_datagram(rng, kind):
    """a datagram the discovery endpoint must reject entirely"""
    # a valid, consequential SD payload: would change state if it were processed
    ents = [net.offer(SVC_REMOTE["sid"], rng.choice((1, 3)), 2, 0, rng.choice((0, 3)), o1=[refwire.ep4("10.0.0.2", 3000)]),
            net.subscribe(local_sid(rng), 1, 1, 1, rng.choice((0, 3)), o1=[refwire.ep4("10.0.0.3", 4000)]),
            net.find(local_sid(rng))]
    rng.shuffle(ents)
    sess = rng.choice((1, 1, 2, 0xFFFF, rng.randrange(1, 0x10000)))
    good = net.sd_bytes(ents[: rng.randrange(1, 4)], sess, reboot=rng.random() < 0.7)
    b = bytearray(good)
    if kind == "service":
        b[0:2] = rng.choice((b"\xff\xfe", b"\x00\x00", b"\x22\x22"))
    elif kind == "method":
        b[2:4] = rng.choice((b"\x81\x01", b"\x00\x00", b"\x01\x00"))
    elif kind == "interface_version":
        b[13] = rng.choice((0, 2, 0xFF))
    elif kind == "message_type":
        b[14] = rng.choice((0, 1, 0x80, 0x81, 0x42))
    elif kind == "return_code":
        b[15] = rng.choice((1, 2, 10))
    elif kind == "fields_permuted":
        # every identifying field holds a value that is right for ANOTHER field: service and method id swapped, and / or the
        # values 1 (interface version), 2 (NOTIFICATION), 0 (E_OK) rotated among the three one-byte fields (1 = REQUEST_NO_RETURN
        # and E_NOT_OK, 2 = E_UNKNOWN_SERVICE, 0 = REQUEST are all legal values there)
        how = rng.choice(("ids", "bytes", "both"))
        if how in ("ids", "both"):
            b[0:2], b[2:4] = b[2:4], b[0:2]
        if how in ("bytes", "both"):
            b[13], b[14], b[15] = rng.choice(((2, 1, 0), (0, 2, 1), (2, 0, 1), (1, 0, 2), (0, 1, 2)))
    elif kind == "two_fields":
        for k2 in rng.sample(("service", "method", "interface_version", "message_type", "return_code"), 2):
            b = bytearray(rejected_datagram_field(rng, k2, b))
    elif kind == "undecodable_payload":
        lay = corpus.Layout()
        sl, _ = corpus.gen_sd_payload(rng)
        for _ in range(50):
            pl, _d = corpus.mutate(rng, sl)
            if refwire.classify_sd(pl)[0] != "ok":
                break
        else:
            pl = b"\xc0\x00\x00"
        b = bytearray(refwire.encode_someip(dict(sid=0xFFFF, mid=0x8100, cid=0, sess=sess, iv=1, mt=2, rc=0, payload=pl)))
    elif kind == "unicode_payload":
        bad = refwire.opt_config([b"k\xc3\xa9y=v"])
        pl = refwire.encode_sd(0xC0, [dict(type=1, i1=0, i2=0, n1=1, n2=0, sid=SVC_REMOTE["sid"], iid=1, maj=2, ttl=3, val=0)], [bad])
        b = bytearray(refwire.encode_someip(dict(sid=0xFFFF, mid=0x8100, cid=0, sess=sess, iv=1, mt=2, rc=0, payload=pl)))
    elif kind == "garbage":
        b = bytearray(gen.rbytes(rng, rng.choice((1, 7, 15, 16, 40))))
        if len(b) >= 16 and refwire.classify_someip(bytes(b))[0] == "ok":
            b[12] = 9
    elif kind == "bad_version":
        b[12] = rng.choice((0, 2))
    elif kind == "truncated":
        b = b[: rng.randrange(1, len(b))]
    return bytes(b)


REJECT_KINDS = ("service", "method", "interface_version", "message_type", "return_code", "fields_permuted", "two_fields", "undecodable_payload",
                "unicode_payload", "garbage", "bad_version", "truncated")


def run_scenario(seed, script, collect):
    rng = random.Random(seed)
    import zlib

    # both twins of a pair run with the same log level (the level alternates between pairs)
    h = Harness(rng, draw_mode="rand", max_iterations=400000, debug_log=zlib.crc32(str(seed).encode()) % 2 == 0)
    prot, tr, cb = build_put(h, collect)
    escaped = []

    def inject(data, src, mc):
        try:
            prot.datagram_received(data, src, mc)
        except BaseException as exc:  # noqa: B036
            escaped.append((type(exc).__name__, repr(exc), data))

    for t, rank, data, src, mc in script:
        h.at(t, inject, data, src, mc, rank=rank)
    h.run(16.0)
    snap = dict(callbacks=list(cb), sent=[(t, d, a) for t, _it, d, a in tr.sent])
    # optional probes on private state
    try:
        snap["found"] = sorted((repr(a), repr(s)) for a, d in prot.discovery.found_services.store.items() for s in d)
    except Exception:
        snap["found"] = None
    try:
        snap["subs"] = sorted((repr(a), repr(s)) for i in prot.announcer.announcing_services
                              for a, d in i.subscriptions.store.items() for s in d)
    except Exception:
        snap["subs"] = None
    try:
        snap["incoming"] = dict(prot.session_storage.incoming)
        snap["outgoing"] = dict(prot.session_storage.outgoing)
    except Exception:
        snap["incoming"] = snap["outgoing"] = None
    problems = [p for p in h.problems() if p[0] != "logged_exception"]
    h.close()
    return snap, escaped, problems


def twin(ctx, spec, rng, idx):
    seed = f"{spec['seed']}/{spec['shard']}/{idx}"
    srng = random.Random("bg" + seed)
    flagclear = idx % 5 == 4
    slotted = idx % 10 == 9
    base = background_script(srng, slots=slotted)
    collect = srng.choice((0, 2.0 ** -8))
    filled = []
    if slotted:
        # "the entries of an SD message whose unicast flag is clear are ignored": the two known peers send such messages inside
        # their own session sequences, naming exactly the services and subscriptions their genuine traffic is about.  Twin a
        # gets every such message without entries, twin b with them; everything observable must agree.
        plain = []
        for ev in base:
            if ev[1] is not None:
                plain.append(ev)
                continue
            t, _none, src, mc, fl, sid = ev
            if src == PEER_A:
                ents = [net.offer(SVC_REMOTE["sid"], srng.choice((1, 1, 2)), 2, 0, srng.choice((0, 0, 3, 0xFFFFFF)),
                                  o1=[refwire.ep4("10.0.0.2", 3000)]) for _ in range(srng.randrange(1, 3))]
            else:
                ents = [net.subscribe(local_sid(srng), 1, 1, srng.choice((1, 2)), srng.choice((0, 0, 3)), counter=srng.choice((0, 1)),
                                      o1=[refwire.ep4("10.0.0.3", 4000)]) for _ in range(srng.randrange(1, 3))]
                if srng.random() < 0.3:
                    ents.append(net.find(SVC_LOCAL["sid"]))
            plain.append((t, net.sd_bytes([], sid, reboot=fl, unicast=False), src, mc))
            filled.append((t, net.sd_bytes(ents, sid, reboot=fl, unicast=False), src, mc))
            ctx.count("twin_flagclear_messages_inside_a_known_peers_session_sequence")
            ctx.note("twin_reject_kinds", "unicast-flag-clear:known-peer:" + ("stop" if any(e["ttl"] == 0 for e in ents) else "live"))
        with_entries = []
        it = iter(filled)
        for ev in base:
            with_entries.append(ev if ev[1] is not None else next(it))
        base, base_b = plain, with_entries
    else:
        base_b = base
    if not slotted and idx % 3 == 1:
        # TR_SOMEIP_00140: several messages in one datagram.  Twin b gets some of the genuine datagrams with a message that is no
        # SD notification (a consequential SD payload under a header that is wrong in some field) bundled behind the genuine one
        base_b = list(base)
        cand = [i for i, ev in enumerate(base_b) if ev[1]]
        for i in srng.sample(cand, min(len(cand), srng.randrange(1, 3))):
            kind = srng.choice(("service", "method", "interface_version", "message_type", "return_code", "fields_permuted", "two_fields",
                                "undecodable_payload"))
            t, d, src_, mc_ = base_b[i]
            base_b[i] = (t, d + rejected_datagram(srng, kind), src_, mc_)
            ctx.count("twin_rejected_messages_bundled_behind_a_genuine_one")
            ctx.note("twin_reject_kinds", "bundled:" + kind)
    a, esc_a, prob_a = run_scenario(seed, [(t, BEFORE, d, s, m) for t, d, s, m in base], collect)
    # injection instants: random, coinciding with genuine traffic, around the endpoint's own transmissions
    instants = [t for t, *_ in base] + [t for t, _d, _a in a["sent"]]
    inj = []
    for _ in range(srng.randrange(1, 7)):
        mode = srng.choice(("random", "at-genuine", "just-before", "just-after"))
        t0 = srng.choice(instants) if instants and mode != "random" else srng.randrange(0, 640) / 64.0
        # same instant, ahead of / behind the timers due then (see vloop.RankedHandle)
        t = max(t0, 2.0 ** -10)
        rank = AFTER if mode == "just-after" else BEFORE
        if flagclear:
            ents = [net.offer(SVC_REMOTE["sid"], 1, 2, 0, 3, o1=[refwire.ep4("10.0.0.66", 3000)]),
                    net.subscribe(SVC_LOCAL["sid"], 1, 1, 1, 3, o1=[refwire.ep4("10.0.0.66", 4000)]), net.find(SVC_LOCAL["sid"])]
            data = net.sd_bytes(ents[: srng.randrange(1, 4)], srng.randrange(1, 0x10000), reboot=srng.random() < 0.5, unicast=False)
            src, kind = FOREIGN, "unicast-flag-clear"
        else:
            kind = srng.choice(REJECT_KINDS)
            data = rejected_datagram(srng, kind)
            src = srng.choice((PEER_A, PEER_B, PEER_A, PEER_B, FOREIGN))
        inj.append((t, data, src, srng.random() < 0.3, kind, mode, rank))
        ctx.note("twin_reject_kinds", kind)
        ctx.note("twin_injection_modes", mode)
    # merge, injected datagram placed before or after genuine traffic of the same instant
    merged = [(t, 1, i, (t, BEFORE, d, s, m)) for i, (t, d, s, m) in enumerate(base_b)]
    for j, (t, d, s, m, kind, mode, rank) in enumerate(inj):
        merged.append((t, srng.choice((0, 2)), j, (t, rank, d, s, m)))
    merged.sort(key=lambda x: x[:3])
    b, esc_b, prob_b = run_scenario(seed, [x[3] for x in merged], collect)
    ctx.count("twin_runs")
    ctx.count("twin_injected_datagrams", len(inj))
    ctx.count("twin_background_callbacks", len(a["callbacks"]))
    ctx.count("twin_background_transmissions", len(a["sent"]))
    if flagclear:
        ctx.count("twin_flagclear_runs")
    replay = dict(kind="twin", spec=dict(seed=spec["seed"], shard=spec["shard"]), idx=idx)
    desc = dict(injected_datagrams=[(t, k, m, s, d[:60]) for t, d, s, _mc, k, m, _r in inj],
                flagclear_messages_of_known_peers=[(t, s, d[:80]) for t, d, s, _mc in filled][:6])
    for e in esc_b[:2]:
        ctx.violation("exception-leaves-datagram_received:" + e[0], dict(endpoint="discovery", exc=e[1], datagram=e[2][:200]), replay)
    for e in esc_a[:1]:
        ctx.violation("exception-leaves-datagram_received:" + e[0], dict(endpoint="discovery", exc=e[1], datagram=e[2][:200], genuine=True), replay)
    if prob_b and not prob_a:
        ctx.violation("rejected-datagram-causes-exception-in-loop", dict(problems=prob_b[:3], **desc), replay)
    if a["callbacks"] != b["callbacks"]:
        i = next((i for i, (x, y) in enumerate(zip(a["callbacks"], b["callbacks"])) if x != y), min(len(a["callbacks"]), len(b["callbacks"])))
        ctx.violation("rejected-datagram-changes-listener-callbacks",
                      dict(first_difference=i, plain=a["callbacks"][i:i + 2], injected=b["callbacks"][i:i + 2], **desc), replay)
    if a["sent"] != b["sent"]:
        i = next((i for i, (x, y) in enumerate(zip(a["sent"], b["sent"])) if x != y), min(len(a["sent"]), len(b["sent"])))
        ctx.violation("rejected-datagram-changes-transmissions",
                      dict(first_difference=i, plain=a["sent"][i:i + 1], injected=b["sent"][i:i + 1], **desc), replay)
    for k in ("found", "subs", "outgoing"):
        if a[k] is not None and a[k] != b[k]:
            ctx.violation("rejected-datagram-changes-" + {"found": "discovery", "subs": "subscription", "outgoing": "session"}[k] + "-state",
                          dict(plain=repr(a[k])[:300], injected=repr(b[k])[:300], **desc), replay)
    if a["incoming"] is not None:
        ia, ib = dict(a["incoming"]), dict(b["incoming"])
        if flagclear:
            ia = {k: v for k, v in ia.items() if k[0] != FOREIGN}
            ib = {k: v for k, v in ib.items() if k[0] != FOREIGN}
        if ia != ib:
            diff = {repr(k): (ia.get(k), ib.get(k)) for k in set(ia) | set(ib) if ia.get(k) != ib.get(k)}
            ctx.violation("rejected-datagram-changes-session-state", dict(diff=diff, **desc), replay)
        ctx.count("twin_session_table_probes")
    ctx.case(("twin", seed), True,
             sample=dict(monitor="twin run", background_datagrams=len(base), injected=[(t, k, m) for t, _d, _s, _mc, k, m, _r in inj])
             if idx == 0 else None)


# ---------------------------------------------------------------------------------- driver
def shards(tier, seed):
    q = tier == "quick"
    out = [dict(shard=i, seed=seed, mode="decoders", n=12000 if q else 400000) for i in range(6 if q else 12)]
    out += [dict(shard=20 + i, seed=seed, mode="live-sd", n=1500 if q else 40000) for i in range(4 if q else 8)]
    out += [dict(shard=40 + i, seed=seed, mode="live-svc", n=1500 if q else 40000) for i in range(2 if q else 4)]
    out += [dict(shard=60 + i, seed=seed, mode="twin", n=60 if q else 2500) for i in range(4 if q else 8)]
    return out


def run(spec, ctx):
    import someip.header as H

    mode = spec["mode"]
    base = f"C03/{spec['seed']}/{spec['shard']}"
    if mode == "decoders":
        steps = StepCounter(H)
        for i in range(spec["n"]):
            rng = random.Random(f"{base}/{i}")
            key, nt = decoder_case(H, rng, ctx, dict(kind="decoder", base=base, index=i), steps)
            ctx.case(key, nt, sample=dict(monitor="decoder", decoder=key[0], mutation=key[1], outcome=key[2], input=key[3][:80]) if i < 2 else None)
            ctx.note("mutation_kinds", key[1])
    elif mode == "live-sd":
        live_sd(ctx, spec, random.Random(base))
    elif mode == "live-svc":
        live_service(ctx, spec, random.Random(base))
    else:
        rng = random.Random(base)
        for i in range(spec["n"]):
            twin(ctx, spec, rng, i)


def replay(doc, ctx):
    import someip.header as H

    k = doc["kind"]
    if k == "decoder":
        rng = random.Random(f"{doc['base']}/{doc['index']}")
        decoder_case(H, rng, ctx, doc, StepCounter(H))
    elif k in ("live-sd", "live-svc"):
        rng = random.Random(0)
        h = Harness(rng)
        if k == "live-sd":
            prot, tr, cb = build_put(h)
        else:
            prot = make_service(h)
        esc = []

        def inject():
            try:
                prot.datagram_received(doc["data"], tuple(doc["src"]), doc["multicast"])
            except BaseException as exc:  # noqa: B036
                esc.append(exc)

        h.at(1.0, inject)
        h.run(3.0)
        for e in esc:
            ctx.violation("exception-leaves-datagram_received:" + type(e).__name__, dict(exc=repr(e)), doc)
        for p in h.problems():
            if p[0] != "logged_exception":
                ctx.violation("exception-reaches-loop-handler-after-datagram", dict(problem=p), doc)
        h.close()
    elif k == "twin":
        twin(ctx, doc["spec"], random.Random(0), doc["idx"])
    else:
        run(doc["spec"], ctx)
    ctx.case(("replay",), True)
