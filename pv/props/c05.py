"""C05 - discovery listeners see a truthful, strictly alternating service history."""
from __future__ import annotations

import itertools
import math
import random

from pv import net, refwire
from pv.vloop import Harness, EPS, BEFORE, AFTER, RES

ID = "C05"
LEVEL = "exploration"
EXHAUSTIVE = False
TECHNIQUE = ("runtime listener-history monitor vs live-offer reference model evaluated at idle points of a virtual-time loop; "
             "bounded-exhaustive action/placement sequences plus random histories through datagram_received")
LEVEL_TEXT = ("Every action sequence up to length 3 over a 14-letter alphabet x 6 placement classes x 3 initial registrations is "
              "enumerated (exhaustive core), longer random histories on top; each runs the real discovery endpoint on the virtual "
              "loop, listeners' call sequences are judged for alternation on every event and for truth against the live-offer model "
              "at every idle point, and reboot ordering per message. Histories beyond the core are sampled")
LEVEL_NOTE = ("trusts the live-offer model + reboot-detector model in this module, the virtual loop (FIFO order for equal deadlines), "
              "one listener object per registration; coincident offer/deadline accepts both outcomes the property allows")
TIEBREAK_VARIANTS = True  # thorough tier: some shards run equal-deadline timers LIFO / in seeded random order
RULE = (
    "alphabet: offer s1 ttl1 / ttl-inf, stop s1, offer s2 ttl2, reboot+offer s1, reboot only, connection loss, watch/unwatch a "
    "wildcard filter, watch-all/unwatch-all, offer from a second source, offer via the multicast channel, stop+offer in one message; "
    "placements: new instant, same loop iteration as the previous action, d-eps / d ahead of the timer / d behind the timer / d+eps "
    "around the earliest pending TTL deadline d; exhaustive to length 3 from 3 initial registration states, random histories of "
    "length <= 40 with 3 services, 2 sources, 4 registrations, TTL {1,2,3,inf}. distinct = distinct (initial state, (letter, "
    "placement) sequence); non-trivial = at least one offer was live while a listener was registered"
)
ASSUMPTIONS = ["truth is judged only for currently registered listeners and only at idle points (ready queue empty, next timer "
               "more than one clock resolution away)",
               "'arrived while registered' = the most recent offer arrived, in script order, after the listener's current registration began",
               "alternation is judged per registration period (a re-registration starts a new history)"]
FLOORS = {"quick": {"histories": 60000, "exhaustive_core_histories": 50000, "random_histories": 3000, "histories_with_a_crowd_of_other_senders": 150, "idle_truth_checks": 2000000,
                    "alternation_events": 100000, "reboot_order_checks": 2000, "same_iteration_placements": 20000,
                    "deadline_before_placements": 5000, "deadline_after_placements": 5000, "offered_required_checks": 50000, "scenarios_with_a_listener_registered_from_inside_a_report": 500,
                    "mesh_scenarios": 100, "mesh_final_checks_watcher": 90, "mesh_alternation_events": 600}}
# system-level shards: the mesh workload of pv/mesh.py under this property's boundary monitors (reports of other monitors are dropped)
MESH = {"want": ("converge",), "claim": ("mesh:watcher-does-not-converge", "mesh:discovery-listener-history"),
        "quick": (2, 60), "thorough": (16, 1500)}

FOREVER = 0xFFFFFF
SERVICES = {1: (0x1111, 1, 1, 0), 2: (0x1111, 2, 1, 0), 3: (0x2222, 1, 1, 7), 4: (0x2222, 1, 1, 8), 5: (0x1111, 1, 2, 0)}  # 4, 5: near misses of filters F3 / F2
# same host, other port; one link-local IPv6 address behind two interfaces: keys must use the full socket address
SOURCES = {"A": ("10.0.5.1", 30490), "B": ("10.0.5.1", 30491), "C": ("fe80::5", 30490, 0, 2), "D": ("fe80::5", 30490, 0, 3)}
SRC_NAME = {v: k for k, v in SOURCES.items()}
CROWD_FIND = net.sd_bytes([net.find(0x7777)], 1, reboot=True)
# registrations: name -> filter tuple (sid, iid, maj, minor) or None for watch-all
REGS = {"F1": (0x1111, 0xFFFF, 0xFF, 0xFFFFFFFF), "F2": (0x1111, 1, 1, 0xFFFFFFFF), "ALL": None, "F3": (0x2222, 0xFFFF, 1, 7),
        "F4": (0x1111, 0xFFFF, 0xFF, 0),  # any instance, any major, pinned minor
        "F5": (0x1111, 2, 0xFF, 0xFFFFFFFF)}  # registered with the SAME listener object as F3 (disjoint filters, one listener)
SHARED = {"F3": "F3+F5", "F5": "F3+F5"}


def fmatch(f, s):
    if f is None:
        return True
    if f[0] != s[0]:
        return False
    for a, b, w in ((f[1], s[1], 0xFFFF), (f[2], s[2], 0xFF), (f[3], s[3], 0xFFFFFFFF)):
        if a != w and b != w and a != b:
            return False
    return True


# ------------------------------------------------------------------------------------- model
class Model:
    def __init__(self):
        self.live = {}  # (src, svc) -> dict(deadline, last_offer_pos)
        self.sess = {}  # (src, channel) -> (flag, sid)
        self.registered = {}  # reg -> pos at which the current registration began
        self.reboots = []  # (t, src, prev_live set, offered list, pos)

    def expire(self, t, inclusive):
        for k in [k for k, v in self.live.items() if v["deadline"] != math.inf and
                  (v["deadline"] <= t + RES if inclusive else v["deadline"] < t - RES)]:
            del self.live[k]

    def apply(self, t, pos, a):
        kind = a["kind"]
        if kind == "msg":
            src = a["src"]
            k = (src, a["mc"])
            old = self.sess.get(k)
            self.sess[k] = (a["flag"], a["sid"])
            reboot = old is not None and a["flag"] and (not old[0] or a["sid"] <= old[1])
            if reboot:
                prev = {s for (sr, s) in self.live if sr == src}
                for key in [key for key in self.live if key[0] == src]:
                    del self.live[key]
                self.reboots.append((t, src, prev, [e[0] for e in a["entries"] if e[1] > 0], pos))
            for svc, ttl in a["entries"]:
                key = (src, svc)
                if ttl == 0:
                    self.live.pop(key, None)
                else:
                    self.live[key] = dict(deadline=math.inf if ttl == FOREVER else t + ttl, last_offer_pos=pos)
        elif kind == "lost":
            self.live.clear()
        elif kind == "watch":
            self.registered[a["reg"]] = pos
        elif kind == "unwatch":
            self.registered.pop(a["reg"], None)


# ------------------------------------------------------------------------------------- execution
class Run:
    def __init__(self, script, init_regs, seed):
        self.script = script
        self.init_regs = init_regs
        self.h = Harness(random.Random(seed), max_iterations=100000)
        self.prot, self.tr = net.make_sd(self.h.loop, ("10.0.5.100", 30490))
        self.events = {r: [] for r in REGS}  # reg -> [(seq, t, kind, svc, src, period)]
        self.period = {r: 0 for r in REGS}
        self.seq = itertools.count()
        self.listeners = {r: self._listener(r) for r in REGS if r not in SHARED}
        shared = self._listener(None)
        for r in SHARED:
            self.listeners[r] = shared
        self.model = Model()
        self.pos = 0
        self.executed = 0
        self.violations = []
        self.stats = dict(idle_truth_checks=0, alternation_events=0, reboot_order_checks=0, offered_required_checks=0,
                          live_while_registered=False)
        self.by_instant = {}
        self.actual = set(init_regs)  # registrations as executed
        self.armed = set()            # registrations whose listener will unregister itself inside its next callback
        self.retired = set()          # ... and did: no longer judged for the rest of the history

    def _listener(self, reg):
        run = self
        import someip.sd as S

        def which(service):
            # the shared listener serves two disjoint filters: the service id tells which registration a report belongs to
            if reg is not None:
                return reg
            return "F3" if service.service_id == REGS["F3"][0] else "F5"

        class L(S.ClientServiceListener):
            def service_offered(self, service, source):
                run._event(which(service), "offered", service, source)

            def service_stopped(self, service, source):
                run._event(which(service), "stopped", service, source)

        return L()

    def _event(self, reg, kind, service, source):
        if reg in self.retired:
            cur = getattr(self, "_unregistering", None)
            if cur is not None and cur == (reg, "stopped", service.service_id, service.instance_id, service.major_version, service.minor_version, source) \
                    and kind == "stopped":
                # while the listener takes itself out from inside a 'stopped' report, the library tells it 'stopped' for that very
                # service and source again: the stop is reported twice
                self.fail("stop-reported-twice-to-a-listener-that-unregisters-inside-the-report", reg,
                          (service.service_id, service.instance_id, service.major_version, service.minor_version), source, [])
            return
        if reg in self.armed:
            self._unregistering = (reg, kind, service.service_id, service.instance_id, service.major_version, service.minor_version, source)
            # re-entrant call: the listener unregisters itself from inside its own notification.  What the *other*
            # listeners are told about this very event, and everything afterwards, must not suffer
            self.armed.discard(reg)
            self.retired.add(reg)
            self.actual.discard(reg)
            self.stats["reentrant_unwatch_calls"] = self.stats.get("reentrant_unwatch_calls", 0) + 1
            self._unwatch(reg)
            self._unregistering = None
            return
        svc = (service.service_id, service.instance_id, service.major_version, service.minor_version)
        self.events[reg].append((next(self.seq), self.h.loop.time(), kind, svc, SRC_NAME.get(source, source), self.period[reg]))
        self.stats["alternation_events"] += 1
        # alternation is judged on every event, per registration period
        hist = [e for e in self.events[reg] if e[3] == svc and e[4] == SRC_NAME.get(source, source) and e[5] == self.period[reg]]
        if len(hist) == 1:
            if kind != "offered":
                self.fail("listener-history-does-not-begin-with-offered", reg, svc, source, hist)
        elif hist[-2][2] == kind:
            self.fail("listener-history-not-alternating:" + kind + "-twice", reg, svc, source, hist)

    def fail(self, mech, reg, svc, source, hist, extra=None):
        if len(self.violations) < 3:
            self.violations.append((mech, dict(registration=reg, service=svc, source=SRC_NAME.get(source, source),
                                               t=self.h.loop.time(), history=[(e[1], e[2]) for e in hist][-6:], extra=extra)))

    # ---- scripted actions
    def do(self, pos, a):
        self.executed += 1  # script order is execution order (a hopped action is the last one of its instant)
        d = self.prot.discovery
        if a["kind"] == "msg":
            self.prot.datagram_received(a["data"], SOURCES[a["src"]], a["mc"])
        elif a["kind"] == "lost":
            # asyncio reports a closed transport with None, a failed one with the exception
            self.prot.connection_lost(None if self.executed % 2 else ConnectionResetError("transport failed"))
        elif a["kind"] == "start":
            # the application registers its listeners, does other set-up while offers already arrive, and only then starts
            # discovery (or stops and starts it again): what is known and what listeners were told stays as it is
            if getattr(self.prot.discovery, "task", None) is not None or self.executed % 2:
                self.prot.discovery.stop()  # (also on a discovery that was never started: a no-op)
            self.prot.discovery.start()
        elif a["kind"] == "crowd":
            # a busy segment: very many other nodes are heard (each asks for a service nobody here offers)
            for i in range(a["n"]):
                addr = (f"10.7.{i >> 8 & 255}.{i & 255}", 30490) if i % 3 else (f"2001:db8:7::{i + 1:x}", 30490, 0, 0)
                self.prot.datagram_received(CROWD_FIND, addr, i % 2 == 0)
        elif a["kind"] == "arm":
            if a["reg"] in self.actual and a["reg"] not in self.retired:
                self.armed.add(a["reg"])
        elif a["kind"] == "watch":
            if a["reg"] in self.retired or a["reg"] in self.actual:
                return
            self.actual.add(a["reg"])
            self.period[a["reg"]] += 1
            self._watch(a["reg"], pos)
        elif a["kind"] == "unwatch":
            if a["reg"] in self.retired or a["reg"] not in self.actual:
                return
            self.actual.discard(a["reg"])
            self.armed.discard(a["reg"])
            self._unwatch(a["reg"])

    def _unwatch(self, reg):
        import someip.config as C

        d = self.prot.discovery
        f = REGS[reg]
        if f is None:
            d.stop_watch_all_services(self.listeners[reg])
        else:
            d.stop_watch_service(net.client_filter(C, f), self.listeners[reg])

    def _watch(self, reg, pos=-1):
        import gc
        import someip.config as C

        f = REGS[reg]
        listener = self.listeners[reg]
        inline = reg not in SHARED and not any(a.get("reg") == reg and a["kind"] in ("unwatch", "arm")
                                               for _t, _r, a in self.script[pos + 1:])
        if inline:
            # a registration the application never takes back needs no handle: the listener is created in the call itself and
            # nothing but the library refers to it afterwards (its reports still arrive here through the closure)
            listener = self._listener(reg)
            self.stats["listeners_registered_inline"] = self.stats.get("listeners_registered_inline", 0) + 1
        # an application that issues its watches again (in its reconnect routine, say) while nothing is known yet: registering is
        # idempotent, one listener under one filter is one registration
        again = 2 if pos >= 0 and not any(a["kind"] == "msg" for _t, _r, a in self.script[:pos]) else 1
        if again == 2:
            self.stats["registrations_issued_twice_while_nothing_was_known"] = self.stats.get("registrations_issued_twice_while_nothing_was_known", 0) + 1
        for _ in range(again):
            if f is None:
                self.prot.discovery.watch_all_services(listener)
            else:
                self.prot.discovery.watch_service(net.client_filter(C, f), listener)
        if inline:
            del listener
            gc.collect(0)

    # ---- idle-point oracle
    def on_idle(self):
        T = self.h.loop.time()
        m = self.model
        # the model follows what has actually been executed (an action scheduled exactly one resolution after T may or may
        # not have run in the iteration that just ended - comparing instants cannot tell)
        while self.pos < min(len(self.script), self.executed):
            t, rank, a = self.script[self.pos]
            m.expire(t, inclusive=False)
            m.apply(t, self.pos, a)
            self.pos += 1
        # a deadline that lies one resolution ahead of T to within rounding is run by the loop either in the iteration
        # that just ended or in the next one (its test is when < time() + resolution in floating point): not judged
        band = {k for k, v in m.live.items() if v["deadline"] != math.inf and abs(v["deadline"] - (T + RES)) <= RES}
        m.expire(T, inclusive=True)
        for reg, f in REGS.items():
            if reg in SHARED and reg not in m.registered and reg not in self.retired and self.period[reg] and \
                    any(o != reg and o in m.registered for o in SHARED):
                # the listener object is still registered (through its other, disjoint filter): what it was last told about the
                # services of the filter it gave up must not be a lingering 'offered' for an offer that is no longer live
                latest = {}
                for e in self.events[reg]:
                    if e[5] == self.period[reg]:
                        latest[(e[4], e[3])] = e
                for key, le in latest.items():
                    self.stats["idle_truth_checks"] += 1
                    if key not in band and le[2] == "offered" and m.live.get(key) is None:
                        self.fail("listener-says-offered-but-no-live-offer", reg, key[1], SOURCES[key[0]],
                                  [e for e in self.events[reg] if e[3] == key[1] and e[4] == key[0]], extra="still registered through its other filter")
                continue
            if reg not in m.registered or reg in self.retired:
                continue
            latest = {}
            for e in self.events[reg]:
                if e[5] == self.period[reg]:
                    latest[(e[4], e[3])] = e
            for src in SOURCES:
                for svc in SERVICES.values():
                    self.stats["idle_truth_checks"] += 1
                    key = (src, svc)
                    if key in band:
                        continue
                    lv = m.live.get(key)
                    le = latest.get(key)
                    if le is not None and le[2] == "offered" and lv is None:
                        self.fail("listener-says-offered-but-no-live-offer", reg, svc, SOURCES[src],
                                  [e for e in self.events[reg] if e[3] == svc and e[4] == src])
                    if lv is not None and fmatch(f, svc):
                        self.stats["live_while_registered"] = True
                        if lv["last_offer_pos"] > m.registered[reg]:
                            self.stats["offered_required_checks"] += 1
                            if le is None or le[2] != "offered":
                                self.fail("live-offer-arrived-while-registered-but-listener-not-offered", reg, svc, SOURCES[src],
                                          [e for e in self.events[reg] if e[3] == svc and e[4] == src])
        # reboot ordering, for messages that are the only one of their source in this instant
        while m.reboots:
            t, src, prev, offered, pos = m.reboots.pop(0)
            # judged only when that message is the only scripted action of its instant: other
            # actions (watch replay, connection loss, ...) produce reports of their own
            same = [p for p in range(len(self.script)) if abs(self.script[p][0] - t) <= RES]
            if len(same) != 1 or not prev or not offered:
                continue
            for reg in REGS:
                if reg in self.retired:
                    continue
                ev = [e for e in self.events[reg] if abs(e[1] - t) <= 2 * RES and e[4] == src]
                # what this listener believed to be live from that source just before the message
                believed = {}
                for e in self.events[reg]:
                    if e[4] == src and e[1] < t - 2 * RES and e[5] == self.period[reg]:
                        believed[e[3]] = e[2]
                believed = {svc for svc, kind in believed.items() if kind == "offered"}
                first_offered = min([e[0] for e in ev if e[2] == "offered"], default=None)
                self.stats["reboot_order_checks"] += 1
                if first_offered is None:
                    continue
                for svc in believed:
                    mine = [e for e in ev if e[3] == svc]
                    if mine and mine[0][2] == "stopped" and mine[0][0] > first_offered:
                        self.fail("reboot-stops-reported-after-offers-of-the-same-message", reg, svc, SOURCES[src], ev)

    def execute(self, horizon):
        h = self.h
        for reg in self.init_regs:
            self.model.registered[reg] = -1
            self.period[reg] = 1
            h.at(0.0, self._watch, reg)
        h.loop.idle_hooks.append(self.on_idle)
        for pos, (t, rank, a) in enumerate(self.script):
            h.at(t, self.do, pos, a, rank=rank, hops=a.get("hops", 0))
        h.run(horizon)
        problems = h.problems(allowed_logged=("ParseError", "IncompleteReadError", "ConnectionResetError"))  # the injected transport failure is logged with its traceback
        h.close()
        return problems


# ------------------------------------------------------------------------------------- script building
class Builder:
    """turns abstract letters + placements into a timed script with session ids"""

    def __init__(self, init_regs):
        self.sess = {s: net.PeerSession() for s in SOURCES}
        self.script = []
        self.now = 0.25
        self.deadlines = {}  # (src, svc) -> deadline (light model for placement only)
        self.regs = set(init_regs)
        self.last_rank = BEFORE
        self.last_hops = 0

    def pending(self):
        ds = sorted(d for d in self.deadlines.values() if d != math.inf and d > self.now + 2 * EPS)
        return ds[0] if ds else None

    def place(self, placement):
        """-> (t, rank) or None when the placement class does not exist right now"""
        if placement == "new":
            t = self.now + 0.25
            while any(d != math.inf and abs(d - t) < 4 * EPS for d in self.deadlines.values()):
                t += 2.0 ** -5
            return t, BEFORE
        if placement in ("same", "same+1", "same+2"):
            if not self.script or self.last_hops:
                return None  # nothing more in the instant of a hopped action: script order stays execution order
            return self.now, self.last_rank
        d = self.pending()
        if d is None:
            return None
        return {"d-eps": (d - EPS, BEFORE), "d:before": (d, BEFORE), "d:after": (d, AFTER), "d+eps": (d + EPS, BEFORE),
                "d:after+1": (d, AFTER), "d-res": (d - RES / 2, BEFORE)}[placement]

    def add(self, action, placement):
        p = self.place(placement)
        if p is None:
            return False
        t, rank = p
        a = dict(action)
        if a["kind"] == "msg":
            src = a["src"]
            if a.get("reboot"):
                self.sess[src].reboot()
            flag, sid = self.sess[src].next("m" if a["mc"] else "u")
            a["flag"], a["sid"] = flag, sid
            ents = []
            for svc, ttl in a["entries"]:
                s = svc
                # (every fourth message also carries an SD endpoint option naming some other address: the offer is still the
                #  sender's)
                o1x = [refwire.ep4("10.0.0.99", 30490, typ=0x24)] if len(self.script) % 4 == 1 else []
                ep = refwire.ep4(SOURCES[src][0], 3000) if ":" not in SOURCES[src][0] else refwire.ep6(SOURCES[src][0], 3000)
                # the same offer is presented in different ways from message to message: the endpoint in the first or in the
                # second option run, alone or next to a load-balancing option (what is offered stays the same)
                how = (len(self.script) // 2) % 3 if ttl else 0
                o1, o2 = ((o1x + [ep], []), (o1x, [ep]), ([ep], [refwire.opt_loadbal(1, 1)] + o1x))[how] if ttl else (o1x, [])
                ents.append(net.offer(s[0], s[1], s[2], s[3], ttl, o1=o1, o2=o2))
            a["data"] = net.sd_bytes(net.with_riders(ents, len(self.script) // 3), sid, reboot=flag)
            # light deadline model (expiries only matter for placement)
            for k in [k for k, d in self.deadlines.items() if d != math.inf and d < t - RES]:
                del self.deadlines[k]
            if a.get("reboot"):
                for k in [k for k in self.deadlines if k[0] == src]:
                    del self.deadlines[k]
            for svc, ttl in a["entries"]:
                if ttl == 0:
                    self.deadlines.pop((src, svc), None)
                else:
                    self.deadlines[(src, svc)] = math.inf if ttl == FOREVER else t + ttl
        elif a["kind"] == "lost":
            self.deadlines.clear()
        elif a["kind"] == "arm":
            if a["reg"] not in self.regs:
                return False
        elif a["kind"] == "watch":
            if a["reg"] in self.regs:
                return False
            self.regs.add(a["reg"])
        elif a["kind"] == "unwatch":
            if a["reg"] not in self.regs:
                return False
            self.regs.discard(a["reg"])
        hops = int(placement.split("+")[1]) if "+" in placement and placement != "d+eps" else 0
        a["hops"] = hops
        self.script.append((t, rank, a))
        self.now = t
        self.last_rank = rank
        self.last_hops = hops
        return True

    def horizon(self):
        fin = [d for d in self.deadlines.values() if d != math.inf]
        h = max([self.now] + fin) + 1.0
        if getattr(self, "outlive", False) and any(d == math.inf for d in self.deadlines.values()):
            # an entry with the infinite TTL is still there when 0xFFFFFF seconds (194 days) have gone by
            h += FOREVER + 300.0
        return h


S1, S2, S3 = SERVICES[1], SERVICES[2], SERVICES[3]
ALPHABET = {
    "oA1t1": dict(kind="msg", src="A", mc=False, entries=[(S1, 1)]),
    "oA1inf": dict(kind="msg", src="A", mc=False, entries=[(S1, FOREVER)]),
    "sA1": dict(kind="msg", src="A", mc=False, entries=[(S1, 0)]),
    "oA2t2": dict(kind="msg", src="A", mc=False, entries=[(S2, 2)]),
    "rebootA+o1": dict(kind="msg", src="A", mc=False, entries=[(S1, 3)], reboot=True),
    "rebootA": dict(kind="msg", src="A", mc=False, entries=[], reboot=True),
    "lost": dict(kind="lost"),
    "watchF1": dict(kind="watch", reg="F1"),
    "unwatchF1": dict(kind="unwatch", reg="F1"),
    "watchALL": dict(kind="watch", reg="ALL"),
    "unwatchALL": dict(kind="unwatch", reg="ALL"),
    "oB1t1": dict(kind="msg", src="B", mc=False, entries=[(S1, 1)]),
    "oA1t1mc": dict(kind="msg", src="A", mc=True, entries=[(S1, 1)]),
    "sA1+oA1t2": dict(kind="msg", src="A", mc=False, entries=[(S1, 0), (S1, 2)]),
}
LETTERS = list(ALPHABET)
PLACEMENTS = ("new", "same", "same+1", "d-eps", "d:before", "d:after", "d+eps")
INITS = ((), ("ALL",), ("F1",))


def replay_builder(init, seq):
    b = Builder(init)
    for letter, pl in seq:
        if not b.add(ALPHABET[letter], pl):
            return None
    return b


def extensions(init, seq):
    """all valid one-letter extensions of a prefix"""
    for letter in LETTERS:
        for pl in PLACEMENTS:
            if not seq and pl != "new":
                continue
            b = replay_builder(init, seq)
            if b.add(ALPHABET[letter], pl):
                yield seq + ((letter, pl),)


def core_sequences(length, shard, nshards, rng, sample):
    """lengths 1..3 completely: levels 1 and 2 are built by every shard (cheap) and judged by index modulo; each shard then
    extends only its share of the length-2 prefixes to length 3 (all extensions) and, for length 4, samples the extensions of
    those (memory and time stay proportional to the shard's share)"""
    level = [(init, ()) for init in INITS]
    for depth in (1, 2):
        level = [(init, ext) for init, seq in level for ext in extensions(init, seq)]
        yield depth, [x for k, x in enumerate(level) if k % nshards == shard], True
        if depth == length:
            return
    for init, seq in [x for k, x in enumerate(level) if k % nshards == shard]:
        exts = [(init, ext) for ext in extensions(init, seq)]
        yield 3, exts, True
        if length >= 4:
            for init3, seq3 in exts:
                picked = [(init3, ext) for ext in extensions(init3, seq3) if rng.random() < sample]
                if picked:
                    yield 4, picked, False


def random_history(rng):
    init = rng.choice(INITS + (("F1", "ALL"), ("F2",), ("F3", "F1")))
    b = Builder(init)
    n = rng.randrange(4, 41)
    seq = []
    # half of the histories have a "hot" offer (one source, one service, one TTL - infinite in half of them) that is
    # repeated verbatim, and a hot registration that comes and goes: what a repeated, unchanged offer means depends on
    # who was watching when it arrived before
    hot = (rng.choice("ABCD"), SERVICES[rng.choice((1, 1, 2, 3))], rng.choice((FOREVER, FOREVER, 1, 2, 3)), rng.random() < 0.3) \
        if rng.random() < 0.5 else None
    hot_reg = rng.choice(("ALL", "ALL", "F1", rng.choice(list(REGS))))
    crowd_at = rng.randrange(2, n) if rng.random() < 0.08 else None
    start_at = rng.randrange(1, n) if rng.random() < 0.3 else None
    for step in range(n):
        r = rng.random()
        if step == start_at and b.add(dict(kind="start"), rng.choice(("new", "same", "same+1"))):
            seq.append(("start", "x"))
        if step == crowd_at:
            # everything known so far, then a crowd of other nodes, then (mostly) one of the known sources again - rebooted
            if b.add(dict(kind="crowd", n=rng.choice((300, 1100))), rng.choice(("new", "same"))):
                seq.append(("crowd", "x"))
            if rng.random() < 0.3:
                continue
            r = 0.57
        if r < 0.55:
            if hot and rng.random() < 0.6:
                a = dict(kind="msg", src=hot[0], mc=hot[3], entries=[(hot[1], hot[2])], reboot=False)
            else:
                src = rng.choice("AABCD")
                k = rng.choice((1, 1, 1, 2, 3, 4, 5))
                ents = [(SERVICES[k], rng.choice((0, 1, 1, 2, 3, FOREVER)))]
                if rng.random() < 0.15:
                    ents.append((SERVICES[rng.choice((1, 2, 3, 4, 5))], rng.choice((0, 1, 2, FOREVER))))
                a = dict(kind="msg", src=src, mc=rng.random() < 0.3, entries=ents, reboot=rng.random() < 0.12)
        elif r < 0.6:
            a = dict(kind="msg", src=rng.choice("ABCD"), mc=False, entries=[], reboot=True)
        elif r < 0.64:
            a = dict(kind="lost")
        elif r < 0.69 and b.regs:
            a = dict(kind="arm", reg=rng.choice(sorted(b.regs)))
        else:
            reg = hot_reg if hot and rng.random() < 0.6 else rng.choice(list(REGS))
            a = dict(kind="unwatch" if reg in b.regs else "watch", reg=reg)
        pl = rng.choice(("new", "new", "same", "same", "same+1", "same+2", "d-eps", "d:before", "d:after", "d:after+1", "d+eps", "d-res"))
        if b.add(a, pl):
            seq.append((a["kind"], pl))
    b.outlive = rng.random() < 0.15
    return init, b, tuple(seq)


def judge(ctx, init, builder, seqkey, seed, replay, core):
    run = Run(builder.script, init, seed)
    problems = run.execute(builder.horizon())
    ctx.count("histories")
    ctx.count("exhaustive_core_histories" if core else "random_histories")
    for k in ("idle_truth_checks", "alternation_events", "reboot_order_checks", "offered_required_checks"):
        ctx.count(k, run.stats[k])
    ctx.count("reentrant_unwatch_calls", run.stats.get("reentrant_unwatch_calls", 0))
    ctx.count("listeners_registered_inline", run.stats.get("listeners_registered_inline", 0))
    ctx.count("registrations_issued_twice_while_nothing_was_known", run.stats.get("registrations_issued_twice_while_nothing_was_known", 0))
    for t, rank, a in builder.script:
        pass
    for mech, detail in run.violations[:2]:
        detail["script"] = [(t, rank, {k: v for k, v in a.items() if k != "data"}) for t, rank, a in builder.script][:14]
        detail["init"] = list(init)
        ctx.violation(mech, detail, replay)
    for p in problems:
        ctx.violation("unexpected-exception-during-run", dict(problem=p, init=list(init),
                      script=[(t, rank, {k: v for k, v in a.items() if k != "data"}) for t, rank, a in builder.script][:14]), replay)
    return run.stats["live_while_registered"]


def count_placements(ctx, seq):
    for _l, pl in seq:
        if pl == "same":
            ctx.count("same_iteration_placements")
        elif "+" in pl and pl != "d+eps":
            ctx.count("later_iteration_same_instant_placements")
        elif pl == "d:before":
            ctx.count("deadline_before_placements")
        elif pl == "d:after":
            ctx.count("deadline_after_placements")
        elif pl in ("d-eps", "d+eps"):
            ctx.count("adjacent_iteration_placements")
        elif pl == "d-res":
            ctx.count("within_resolution_before_deadline_placements")


# ------------------------------------------------------------------- listeners registered from inside a report (D13)
def registered_inside_a_report(ctx, seed, replay):
    """A listener that, when it is told a service is offered, registers a further listener (the application starts monitoring
    more once its gate service is up): under the same kind of registration, under another one, under a new filter.  The
    newcomer is registered while the offer is live: its history begins with 'offered', alternates, and once the loop is idle
    its last word is 'offered' exactly while the offer is live."""
    import someip.config as C
    import someip.sd as S

    rng = random.Random("inside" + str(seed))
    h = Harness(random.Random(seed), max_iterations=100000)
    prot, tr = net.make_sd(h.loop, ("10.0.5.100", 30490))
    first_kind = rng.choice(("all", "filter"))
    second_kind = rng.choice(("all", "same-filter", "wider-filter", "other-filter"))
    logs = {"first": [], "second": []}
    state = dict(registered=False)
    SID = 0x1111

    class Rec(S.ClientServiceListener):
        def __init__(self, name):
            self.name = name

        def service_offered(self, service, source):
            logs[self.name].append((h.loop.time(), "offered", service.service_id, source))

        def service_stopped(self, service, source):
            logs[self.name].append((h.loop.time(), "stopped", service.service_id, source))

    second = Rec("second")
    filters = {"same-filter": C.Service(SID, 1), "wider-filter": C.Service(SID), "other-filter": C.Service(SID + 1)}

    class First(Rec):
        def service_offered(self, service, source):
            Rec.service_offered(self, service, source)
            if not state["registered"]:
                state["registered"] = True
                if second_kind == "all":
                    prot.discovery.watch_all_services(second)
                else:
                    prot.discovery.watch_service(filters[second_kind], second)

    first = First("first")

    def setup():
        if first_kind == "all":
            prot.discovery.watch_all_services(first)
        else:
            prot.discovery.watch_service(C.Service(SID, 1), first)

    h.at(0.0, setup)
    P = ("10.0.5.9", 30490)
    sess = net.PeerSession()
    ttl = rng.choice((2, 3, FOREVER))
    t = 0.5
    live = None  # deadline of the offer of (SID, 1) from P
    script = []
    for k in range(rng.randrange(1, 6)):
        what = "offer" if k == 0 else rng.choice(("offer", "offer", "stop", "reboot"))
        if live is not None and live <= t:
            live = None
        fl, sid = (None, None)
        if what == "reboot":
            sess.reboot()
            ents = [net.find(0x7777)]
            live = None
        elif what == "stop":
            ents = [net.offer(SID, 1, 1, 0, 0)]
            live = None
        else:
            ents = [net.offer(SID, 1, 1, 0, ttl, o1=[refwire.ep4("10.0.5.9", 3000)])]
            live = math.inf if ttl == FOREVER else t + ttl
        fl, sid = sess.next()
        h.at(t, prot.datagram_received, net.sd_bytes(net.with_riders(ents, k), sid, reboot=fl), P, False)
        script.append((round(t, 4), what))
        t += rng.choice((0.25, 0.75, 1.5, 2.5)) + 2.0 ** -12
    t_end = t + 0.5
    if live is not None and live <= t_end:
        live = None
    h.run(t_end)
    problems = h.problems()
    h.close()
    ctx.count("scenarios_with_a_listener_registered_from_inside_a_report")
    ctx.note("registrations_from_inside_a_report", first_kind + "->" + second_kind)
    detail = dict(first=first_kind, second=second_kind, ttl=ttl, script=script)
    for p_ in problems:
        ctx.violation("unexpected-exception-during-run", dict(problem=p_, **detail), replay)
    matches = second_kind != "other-filter"
    for name in ("first", "second"):
        last = "stopped"
        for tt, kind, _sid, _src in logs[name]:
            if kind == last:
                ctx.violation("listener-history-not-alternating:" + ("stopped-first-or-twice" if kind == "stopped" else "offered-twice"),
                              dict(listener=name + " (registered from inside a report)" if name == "second" else name, at=tt,
                                   history=[(a, b) for a, b, _c, _d in logs[name]][:8], **detail), replay)
                break
            last = kind
        want = "offered" if live is not None and (name == "first" or matches) else "stopped"
        if not logs[name] and name == "second" and not matches:
            continue
        got = logs[name][-1][1] if logs[name] else "stopped"
        if got != want:
            ctx.violation("listener-says-offered-but-no-live-offer" if got == "offered" else
                          "live-offer-arrived-while-registered-but-listener-not-offered",
                          dict(listener=name, history=[(a, b) for a, b, _c, _d in logs[name]][:8], **detail), replay)
    return True


def shards(tier, seed):
    n = 16
    out = [dict(shard=i, nshards=n, seed=seed, mode="core", length=3 if tier == "quick" else 4,
                sample=None if tier == "quick" else 0.02) for i in range(n)]
    out += [dict(shard=100 + i, seed=seed, mode="random", n=600 if tier == "quick" else 40000) for i in range(n)]
    out += [dict(shard=200, seed=seed, mode="inside", n=600 if tier == "quick" else 40000)]
    return out


def run(spec, ctx):
    if spec["mode"] == "inside":
        base = f"C05inside/{spec['seed']}/{spec['shard']}"
        for i in range(spec["n"]):
            nt = registered_inside_a_report(ctx, f"{base}/{i}", dict(kind="inside", seedkey=f"{base}/{i}"))
            ctx.case(("inside", i), nt)
        return
    if spec["mode"] == "core":
        rng = random.Random(f"C05core/{spec['seed']}/{spec['shard']}")
        shown = 0
        for depth, items, full in core_sequences(spec["length"], spec["shard"], spec["nshards"], rng, spec["sample"] or 0.0):
            for init, seq in items:
                b = replay_builder(init, seq)
                nt = judge(ctx, init, b, seq, "core", dict(kind="core", init=list(init), seq=[list(x) for x in seq]), full)
                count_placements(ctx, seq)
                ctx.case(("core", init, seq), nt,
                         sample=dict(initial_registrations=list(init), actions=[list(x) for x in seq]) if depth == 3 and shown < 2 else None)
                shown += depth == 3
        return
    base = f"C05/{spec['seed']}/{spec['shard']}"
    for i in range(spec["n"]):
        rng = random.Random(f"{base}/{i}")
        init, b, seq = random_history(rng)
        nt = judge(ctx, init, b, seq, f"{base}/{i}", dict(kind="random", base=base, index=i), False)
        count_placements(ctx, seq)
        if any(k == "crowd" for k, _pl in seq):
            ctx.count("histories_with_a_crowd_of_other_senders")
        if any(k == "start" for k, _pl in seq):
            ctx.count("histories_in_which_discovery_is_started_midway")
        ctx.case(("rand", init, seq, tuple(a["kind"] == "msg" and (a["src"], a["mc"], tuple(a["entries"]), bool(a.get("reboot")))
                                            for _t, _r, a in b.script)), nt,
                 sample=dict(initial_registrations=list(init), length=len(seq),
                             head=[(t, {k: v for k, v in a.items() if k not in ("data",)}) for t, _r, a in b.script[:5]]) if i < 1 else None)


def replay(doc, ctx):
    if doc["kind"] == "inside":
        registered_inside_a_report(ctx, doc["seedkey"], doc)
        ctx.case(("replay",), True)
        return
    if doc["kind"] == "core":
        init = tuple(doc["init"])
        seq = tuple(tuple(x) for x in doc["seq"])
        b = replay_builder(init, seq)
        judge(ctx, init, b, seq, "core", doc, True)
    else:
        rng = random.Random(f"{doc['base']}/{doc['index']}")
        init, b, seq = random_history(rng)
        judge(ctx, init, b, seq, f"{doc['base']}/{doc['index']}", doc, False)
    ctx.case(("replay",), True)
