"""C16 - method calls get exactly one correctly correlated reply."""
from __future__ import annotations

import itertools
import random

from pv import gen, refwire

ID = "C16"
LEVEL = "exploration"
EXHAUSTIVE = True
TECHNIQUE = "runtime responder model vs decoded transport log of a live SimpleService, exhaustive over the decision classes"
LEVEL_TEXT = ("Every decision class (service ok, version ok, handler kind incl. unknown method, 10 message types, 11 return "
              "codes, unicast/multicast) is driven through the real datagram receive path with several id/payload samples "
              "each and the decoded replies are compared with a responder model; ids and payloads are sampled")
LEVEL_NOTE = "trusts the responder model in this module and pv/refwire.py for decoding replies"
RULE = (
    "full product of (service id ok?, interface version ok?, handler in {returns bytes, returns empty bytes, returns "
    "None, rejects as malformed, unknown method}, message type, return code, multicast?) x seeded samples of "
    "service/method/client/session ids, versions and payloads, one or several messages per datagram, all through "
    "SimpleService.datagram_received. distinct = distinct decision class x id boundary-class vector; non-trivial = "
    "message fails at least one check or carries a payload"
)
ASSUMPTIONS = ["responder model follows the check precedence given in the statement of C16"]
FLOORS = {"quick": {"messages": 12000, "decision_classes": 4400, "replies_decoded": 5000,
                    "multicast_silent": 1000, "multi_message_datagrams": 300, "replies_sent_back_to_the_service": 1500, "service_objects_announced_and_withdrawn_before_serving": 4,
                    "datagrams_handled_with_debug_logging_on": 5000, "datagrams_handled_with_debug_logging_off": 5000}}

SID, MAJ, MINOR = 0x1234, 3, 7
M_BYTES, M_EMPTY, M_NONE, M_REJECT = 0x0010, 0x0011, 0x0012, 0x0013
HANDLERS = {"bytes": M_BYTES, "empty": M_EMPTY, "none": M_NONE, "reject": M_REJECT}
E_UNKNOWN_SERVICE, E_UNKNOWN_METHOD, E_WRONG_IV, E_MALFORMED, E_WRONG_MT = 2, 3, 8, 9, 10
REQUEST, REQUEST_NO_RETURN, RESPONSE, ERROR = 0, 1, 0x80, 0x81


def response_for(payload: bytes) -> bytes:
    base = b"R" + payload[::-1][:40]
    # replies of any length: short ones, and ones around / beyond the 1400 bytes an unfragmented datagram usually holds
    n = (None, None, None, 1384, 1385, 1400, 1401, 4000, 65000)[(len(payload) + sum(payload[:2])) % 9]
    return base if n is None else (base * (n // len(base) + 1))[:n]


def model(m, multicast):
    """-> None or expected reply dict"""
    if multicast:
        return None

    def err(rc):
        return dict(m, mt=ERROR, rc=rc, payload=b"")

    if m["sid"] != SID:
        return err(E_UNKNOWN_SERVICE)
    if m["iv"] != MAJ:
        return err(E_WRONG_IV)
    if m["mid"] not in HANDLERS.values():
        return err(E_UNKNOWN_METHOD)
    if m["mt"] not in (REQUEST, REQUEST_NO_RETURN):
        return err(E_WRONG_MT)
    if m["rc"] != 0:
        return err(E_WRONG_MT)
    if m["mid"] == M_REJECT:
        return err(E_MALFORMED)
    if m["mid"] == M_NONE or m["mt"] == REQUEST_NO_RETURN:
        return None
    pl = response_for(m["payload"]) if m["mid"] == M_BYTES else b""
    return dict(m, mt=RESPONSE, rc=0, payload=pl)


class Tr:
    def __init__(self):
        self.sent = []

    def sendto(self, data, addr=None):
        self.sent.append((bytes(data), addr))

    def get_extra_info(self, name, default=None):
        return ("192.0.2.1", 30509) if name == "sockname" else default


def make_service():
    import someip.service as SV

    calls = []

    if _MADE[0] % 2:
        # the service class is the next version of an older one and derives from it (class CounterV2(CounterV1): version_major
        # = 2); the older service of the same process has been in use before
        class Old(SV.SimpleService):
            service_id = SID ^ 0x0100
            version_major = (MAJ + 1) & 0xFF
            version_minor = MINOR

        class Svc(Old):
            service_id = SID
            version_major = MAJ

        old = Old(instance_id=1)
        old.transport = Tr()
        old.register_method(M_BYTES, lambda msg, addr: b"old")
        old.datagram_received(refwire.encode_someip(dict(sid=SID ^ 0x0100, mid=M_BYTES, cid=1, sess=1, iv=(MAJ + 1) & 0xFF, mt=0, rc=0,
                                                         payload=b"")), ("192.0.2.50", 30509), False)
    else:
        class Svc(SV.SimpleService):
            service_id = SID
            version_major = MAJ
            version_minor = MINOR

    s = Svc(instance_id=1)
    s.transport = Tr()

    def h_bytes(msg, addr):
        calls.append(("bytes", msg.session_id))
        return response_for(msg.payload)

    def h_empty(msg, addr):
        calls.append(("empty", msg.session_id))
        return b""

    def h_none(msg, addr):
        calls.append(("none", msg.session_id))
        return None

    def h_reject(msg, addr):
        calls.append(("reject", msg.session_id))
        raise SV.MalformedMessageError("no")

    class Throwaway:
        # a handler that is a bound method of an object nobody else references (register_method(id, Obj().handle))
        def handle(self, msg, addr):
            return h_empty(msg, addr)

    s.register_method(M_BYTES, h_bytes)
    s.register_method(M_EMPTY, Throwaway().handle)
    import gc
    gc.collect()
    # the method table is a public dict: one method is put there directly, one is registered and then replaced in place
    s.methods[M_NONE] = h_none
    s.register_method(M_REJECT, h_none)
    # the rejecting handler comes in the forms applications write: a function raising the library's error with a text, a
    # functools.partial raising the application's own subclass of it, an object with __call__ raising it bare
    form = _MADE[0] % 3
    if form == 1:
        import functools

        class PayloadLengthError(SV.MalformedMessageError):
            pass

        def reject_with(exc_type, msg, addr):
            calls.append(("reject", msg.session_id))
            try:
                msg.payload[70000]
            except IndexError as exc:
                raise exc_type(len(msg.payload)) from exc

        s.methods[M_REJECT] = functools.partial(reject_with, PayloadLengthError)
    elif form == 2:
        class Rejecter:
            def __call__(self, msg, addr):
                calls.append(("reject", msg.session_id))
                raise SV.MalformedMessageError

        s.methods[M_REJECT] = Rejecter()
    else:
        s.methods[M_REJECT] = h_reject
    # the service's announcement history is no part of how it answers calls: every other service object has been announced on one
    # (never started) discovery stack and on a second one, and withdrawn again from the first - its endpoint stays open
    _MADE[0] += 1
    if _MADE[0] % 2 == 0:
        import someip.sd as S
        prots = [S.ServiceDiscoveryProtocol(addr) for addr in (("224.224.224.245", 30490), ("ff02::224:245", 30490))]
        for prot in prots:
            s.start_announce(prot.announcer)
        s.stop_announce(prots[0].announcer)
        s._pv_prots = prots
        s._pv_announced = True
    return s, calls


_MADE = [0]
_DGRAMS = [0]


def check_datagram(svc, calls, msgs, multicast, addr, ctx, replay):
    from pv import vloop

    # every other datagram is handled while the library's loggers are enabled for DEBUG
    vloop.install_logging()
    debug = vloop.rotate_loglevel() if replay.get("debug") is None else vloop.set_loglevel(replay["debug"])
    replay["debug"] = debug
    ctx.count("datagrams_handled_with_debug_logging_on" if debug else "datagrams_handled_with_debug_logging_off")
    _DGRAMS[0] += 1
    if _DGRAMS[0] % 16 == 0:
        # the application re-opened the service's socket and assigned the public attribute again (what create_unicast_endpoint
        # does with it): replies leave through the transport in force
        svc.transport = Tr()
        ctx.count("datagrams_handled_after_the_transport_was_assigned_again")
    tr = svc.transport
    tr.sent.clear()
    calls.clear()
    data = b"".join(refwire.encode_someip(m) for m in msgs)
    try:
        if debug:
            svc.datagram_received(data, addr, multicast)
        else:
            # the way datagrams really arrive: through the adapter that create_unicast_endpoint / start_datagram_endpoint put
            # between the asyncio transport and the protocol object
            import someip.sd as _S
            _S.DatagramProtocolAdapter(svc, is_multicast=multicast).datagram_received(data, addr)
            ctx.count("datagrams_delivered_through_the_endpoint_adapter")
    except Exception as exc:  # the receive path must not raise (C03 owns this, but see it here too)
        ctx.violation("receive-path-raised", dict(exc=repr(exc), msgs=msgs), replay)
        return
    expected = [model(dict(m, pv=1), multicast) for m in msgs]
    expected = [e for e in expected if e is not None]
    got = []
    for data, dst in tr.sent:
        ctx.count("replies_decoded")
        if dst != addr:
            ctx.violation("reply-not-sent-to-the-sender-only", dict(dst=dst, sender=addr, msgs=msgs), replay)
        try:
            ms, bad = refwire.split_datagram(data)
        except Exception:
            ms, bad = [], True
        if bad or len(ms) != 1:
            ctx.violation("reply-datagram-not-one-wellformed-message", dict(data=data[:80], msgs=msgs), replay)
        got.extend(ms)
    if multicast:
        ctx.count("multicast_silent")
    if len(got) > len(msgs):
        ctx.violation("more-than-one-reply-per-message", dict(replies=len(got), messages=len(msgs), msgs=msgs), replay)
    if got != expected:
        # find the first difference for the witness
        i = next((i for i, (g, e) in enumerate(itertools.zip_longest(got, expected)) if g != e), 0)
        g = got[i] if i < len(got) else None
        e = expected[i] if i < len(expected) else None
        mech = "reply-differs-from-responder-model"
        if e is None:
            mech = "unexpected-reply"
        elif g is None:
            mech = "missing-reply"
        elif (g["mt"], g["rc"]) != (e["mt"], e["rc"]):
            mech = "wrong-reply-type-or-return-code"
        elif any(g[k] != e[k] for k in ("sid", "mid", "cid", "sess", "iv")):
            mech = "reply-ids-not-echoed"
        elif g["payload"] != e["payload"]:
            mech = "wrong-reply-payload"
        ctx.violation(mech, dict(index=i, got=g, expected=e, multicast=multicast, msgs=msgs), replay)
    # a peer may send the service's own reply straight back (a confused or looping client), or another client may send a
    # RESPONSE / ERROR with just these ids: it is an ordinary unicast message with a non-request type and is answered as such
    _COUNTER[0] += 1
    n = _COUNTER[0]
    if got and not replay.get("echo") and not replay.get("no_echo") and len(tr.sent) == len(got) and n % 3 == 0:
        echo = [dict((k, v) for k, v in g.items() if k != "pv") for g in got]
        ctx.count("replies_sent_back_to_the_service")
        back = addr if n % 2 else ("192.0.2.77", 40077)
        check_datagram(svc, calls, echo, False, back, ctx,
                       dict(msgs=echo, multicast=False, addr=back, echo=True, first=msgs, first_multicast=multicast, first_addr=addr))


_COUNTER = [0]


def gen_fields(rng):
    cid, c1 = gen.u16(rng)
    sess, c2 = gen.u16(rng)
    n = rng.choice((0, 0, 1, 2, 7, 41, 300, 1400))
    return cid, sess, gen.rbytes(rng, n), (c1, c2, min(n, 42))


def shards(tier, seed):
    k = 3 if tier == "quick" else 1500
    n = 8 if tier == "quick" else 16
    return [dict(shard=i, nshards=n, seed=seed, samples=k, dgrams=60 if tier == "quick" else 40000) for i in range(n)]


def run(spec, ctx):
    rng = random.Random(f"C16/{spec['seed']}/{spec['shard']}")
    svc, calls = make_service()
    ctx_n = [0]
    svc2, calls2 = make_service()  # the twin with the other announcement history serves every other datagram
    if getattr(svc, "_pv_announced", False) or getattr(svc2, "_pv_announced", False):
        ctx.count("service_objects_announced_and_withdrawn_before_serving")
    classes = list(itertools.product(
        (True, False), (True, False), ("bytes", "empty", "none", "reject", "unknown"),
        refwire.MSG_TYPES, refwire.RET_CODES, (False, True)))
    mine = classes[spec["shard"]::spec["nshards"]]
    first = True
    for cls in mine:
        sok, vok, hk, mt, rc, mc = cls
        ctx.count("decision_classes")
        for _ in range(spec["samples"]):
            cid, sess, payload, fk = gen_fields(rng)
            sid = SID if sok else rng.choice((SID ^ 1, 0, 0xFFFF, SID + 0x100, rng.randrange(1 << 16) or 1))
            if sid == SID and not sok:
                sid = SID ^ 0x8000
            iv = MAJ if vok else rng.choice((MAJ + 1, 0, 0xFF, MAJ - 1, MINOR))
            mid = HANDLERS[hk] if hk != "unknown" else rng.choice((0, 0x000F, 0x0014, 0x8010, 0xFFFF, M_BYTES | 0x8000,
                                                                    0x8100, 0x8000))  # incl. the SD / magic-cookie method ids
            m = dict(sid=sid, mid=mid, cid=cid, sess=sess, iv=iv, mt=mt, rc=rc, payload=payload)
            # (a dual-stack socket reports an IPv4 client as an IPv4-mapped IPv6 address; a link-local one with its scope id)
            addr = rng.choice((("192.0.2.9", 40000), ("2001:db8::9", 40001, 0, 0), ("::ffff:192.0.2.9", 40000, 0, 0), ("fe80::9", 40001, 0, 3)))
            sv, cl = (svc, calls) if ctx_n[0] % 2 else (svc2, calls2)
            ctx_n[0] += 1
            check_datagram(sv, cl, [m], mc, addr, ctx, dict(msgs=[m], multicast=mc, addr=addr, announced=getattr(sv, "_pv_announced", False)))
            ctx.count("messages")
            faults = (not sok) + (not vok) + (hk == "unknown") + (mt not in (0, 1)) + (rc != 0)
            if faults > 1:
                ctx.count("multi_fault_messages")
            ctx.case((cls, fk), faults > 0 or bool(payload),
                     sample=dict(message={k: v for k, v in m.items() if k != "payload"}, payload_len=len(payload),
                                 multicast=mc, expected=model(dict(m, pv=1), mc)) if first else None)
            first = False
    # several messages per datagram, mixed classes
    for i in range(spec["dgrams"]):
        k = rng.randrange(2, 7)
        msgs = []
        for _ in range(k):
            sok, vok, hk, mt, rc, _mc = rng.choice(classes)
            if rng.random() < 0.5:
                sok, vok, rc = True, True, 0
                mt = rng.choice((0, 1))
            cid, sess, payload, fk = gen_fields(rng)
            msgs.append(dict(sid=SID if sok else SID ^ 0x40, mid=HANDLERS.get(hk, 0x77), cid=cid, sess=sess,
                             iv=MAJ if vok else MAJ + 1, mt=mt, rc=rc, payload=payload[:200]))
        mc = rng.random() < 0.2
        addr = ("192.0.2.9", 40000 + i % 7)
        check_datagram(svc, calls, msgs, mc, addr, ctx, dict(msgs=msgs, multicast=mc, addr=addr))
        ctx.count("multi_message_datagrams")
        ctx.count("messages", k)
        ctx.case(("dgram", tuple((m["sid"] == SID, m["iv"] == MAJ, m["mid"], m["mt"], m["rc"]) for m in msgs), mc), True)


def replay(doc, ctx):
    svc, calls = make_service()
    if bool(doc.get("announced")) != bool(getattr(svc, "_pv_announced", False)):
        svc, calls = make_service()
    addr = tuple(doc["addr"])
    if doc.get("first"):
        # the message whose replies are sent back comes first
        check_datagram(svc, calls, doc["first"], doc["first_multicast"], tuple(doc["first_addr"]), ctx,
                       dict(msgs=doc["first"], multicast=doc["first_multicast"], addr=doc["first_addr"], no_echo=True))
    check_datagram(svc, calls, doc["msgs"], doc["multicast"], addr, ctx, doc)
    ctx.case(("replay",), True)
