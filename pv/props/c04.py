"""C04 - two SD stacks converge: offers are discovered, subscriptions established."""
from __future__ import annotations

import itertools
import random

from pv import net, refwire
from pv.vloop import Harness, EPS, BEFORE, AFTER, RES

ID = "C04"
LEVEL = "fault_enumeration"
TECHNIQUE = ("runtime bounded-progress oracle on two (thorough: three) complete real SD stacks exchanging datagrams over a simulated "
             "network in virtual time; stop/start, crash/restart and loss/duplication/reordering windows injected at every timer "
             "deadline and datagram instant of a fault-free reference run")
LEVEL_TEXT = ("For each timing configuration a fault-free run records every datagram instant (initial wait, repetitions, cyclic offers, "
              "Subscribe, SubscribeAck, refresh); every single disturbance kind is then injected at every such instant in the four "
              "placement classes (d-eps, ahead of the timer, behind the timer, d+eps), pairs and random scripts of up to 8 "
              "disturbances on top. After the last disturbance (incl. delivery of delayed datagrams) plus one TTL plus one cyclic "
              "period plus the start-up delays, at an idle point, the watcher's listener must say 'offered' exactly when the offerer "
              "offers and the offerer's listener 'subscribed' exactly when it offers and the watcher runs; listener histories must "
              "alternate throughout")
LEVEL_NOTE = ("trusts the simulated network (source address, unicast/multicast flag, datagram boundaries, loss/duplication/delay windows; "
              "no kernel effects), the virtual loop and the convergence bound B (never shorter than the property's); a crash is a "
              "black-holed transport followed by dropping the stack, a restart a fresh protocol object on the same address")
TIEBREAK_VARIANTS = True  # thorough tier: some shards run equal-deadline timers LIFO / in seeded random order
RULE = (
    "configurations: 8 fixed and seeded random finite-TTL timing sets (TTL > cyclic period, subscribe TTL > refresh, repetitions 0-3, collection timeout 0 or "
    "not, network latency 0 or not) and 1 infinite-TTL set (lossless, crashes followed by restarts); disturbance kinds: graceful "
    "stop+start and final stop of either side, crash+restart and final crash of either side, loss / duplication / reordering "
    "windows; single disturbances at every reference instant x 4 placements, then random pairs and scripts of 1-8 disturbances. "
    "distinct = distinct (configuration, disturbance kind sequence, reference-instant indices, placements); non-trivial = at least "
    "one disturbance hit a stack that had already offered or subscribed"
)
ASSUMPTIONS = ["convergence bound B = max(TTLs) + max(cyclic, refresh) + initial-delay max + sum of repetition delays + request-response max "
               "+ 3 collection timeouts + 2 network latencies + 1 s",
               "with infinite TTLs: lossless, in-order, duplication-free network and every crash followed by a restart"]
FLOORS = {"quick": {"scripts": 5000, "final_checks_watcher": 4000, "final_checks_offerer": 4000, "alternation_events": 50000,
                    "datagrams_exchanged": 150000, "crashes": 2500, "restarts": 2000, "graceful_stops": 2000, "net_fault_windows": 1200,
                    "single_disturbance_enumerated": 1500, "placements_same_instant": 1500, "infinite_ttl_scripts": 300,
                    "converged_offered_and_subscribed": 2000, "converged_withdrawn": 800,
                    "mesh_scenarios": 100, "mesh_final_checks_watcher": 90, "mesh_final_checks_offerer": 90, "mesh_alternation_events": 600}}
# system-level shards: the mesh workload of pv/mesh.py under this property's boundary monitors (reports of other monitors are dropped)
MESH = {"want": ("converge",), "claim": ("mesh:watcher-does-not-converge", "mesh:offerer-does-not-converge", "mesh:discovery-listener-history", "mesh:subscription-listener-history"),
        "quick": (2, 60), "thorough": (16, 1500)}

FOREVER = 0xFFFFFF
O_ADDR = ("10.0.4.1", 30490)
W_ADDR = ("10.0.4.2", 30490)
W2_ADDR = ("10.0.4.3", 30490)
SVC = (0xB001, 5, 2, 7)
EG = 3

CONFIGS = [
    dict(name="c1", a_ttl=3, cyc=1.0, s_ttl=5, refresh=3.0, init=(0.0, 0.25), reps=2, base=2.0 ** -4, ct=2.0 ** -8, lat=0.0),
    dict(name="c2", a_ttl=2, cyc=0.5, s_ttl=2, refresh=1.0, init=(0.0, 0.0), reps=0, base=2.0 ** -4, ct=0.0, lat=0.0),
    dict(name="c3", a_ttl=3, cyc=1.0, s_ttl=3, refresh=1.0, init=(0.125, 0.125), reps=3, base=2.0 ** -5, ct=2.0 ** -8, lat=2.0 ** -9),
    dict(name="c4", a_ttl=4, cyc=2.0, s_ttl=3, refresh=2.0, init=(0.0, 0.5), reps=1, base=2.0 ** -3, ct=0.0, lat=2.0 ** -7),
    dict(name="c5", a_ttl=2, cyc=1.0, s_ttl=4, refresh=1.0, init=(0.25, 0.75), reps=2, base=2.0 ** -4, ct=2.0 ** -6, lat=0.0),
    dict(name="c6", a_ttl=5, cyc=1.0, s_ttl=2, refresh=0.5, init=(0.0, 0.0), reps=3, base=2.0 ** -4, ct=0.0, lat=2.0 ** -10),
    dict(name="c7", a_ttl=3, cyc=0.5, s_ttl=3, refresh=2.0, init=(0.0, 0.125), reps=0, base=2.0 ** -4, ct=2.0 ** -8, lat=2.0 ** -8),
    dict(name="c8", a_ttl=2, cyc=1.0, s_ttl=2, refresh=1.0, init=(0.0, 1.0), reps=1, base=2.0 ** -2, ct=2.0 ** -8, lat=0.0),
    dict(name="inf", a_ttl=FOREVER, cyc=1.0, s_ttl=FOREVER, refresh=None, init=(0.0, 0.25), reps=2, base=2.0 ** -4, ct=2.0 ** -8, lat=0.0),
]
# (a configuration with infinite TTLs and NO cyclic offers was tried and withdrawn: the property bounds convergence by "one TTL
#  plus one cyclic period" and quantifies over TTLs "longer than the cyclic-offer period" - without a cyclic period it does not
#  apply; see DESIGN.md section 11)
RR = (2.0 ** -6, 2.0 ** -4)


def random_config(rng):
    """a seeded timing configuration inside the quantifier: finite TTLs longer than the cyclic / refresh periods"""
    a_ttl = rng.choice((2, 3, 4, 6))
    cyc = rng.choice([c for c in (0.25, 0.5, 1.0, 2.0, 3.0) if c < a_ttl])
    s_ttl = rng.choice((2, 3, 5, 6))
    refresh = rng.choice([r for r in (0.5, 1.0, 2.0, 3.0, 4.0) if r < s_ttl])
    lo = rng.choice((0.0, 0.0, 0.125, 0.25))
    hi = lo + rng.choice((0.0, 0.125, 0.5, 1.0))
    return dict(name=f"r{rng.randrange(10 ** 6)}", a_ttl=a_ttl, cyc=cyc, s_ttl=s_ttl, refresh=refresh, init=(lo, hi),
                reps=rng.randrange(0, 4), base=rng.choice((2.0 ** -5, 2.0 ** -4, 2.0 ** -3, 2.0 ** -2)),
                ct=rng.choice((0.0, 2.0 ** -8, 2.0 ** -6)), lat=rng.choice((0.0, 0.0, 2.0 ** -10, 2.0 ** -7)))


def bound(cfg):
    ttl = max(cfg["a_ttl"] if cfg["a_ttl"] != FOREVER else 0, cfg["s_ttl"] if cfg["s_ttl"] != FOREVER else 0)
    per = max(cfg["cyc"], cfg["refresh"] or 0)
    return ttl + per + cfg["init"][1] + sum(cfg["base"] * 2 ** i for i in range(cfg["reps"])) + RR[1] + 3 * cfg["ct"] + 2 * cfg["lat"] + 1.0


_STARTS = [0, 0]


class Stack:
    """one peer: (re)creates protocol objects, keeps per-incarnation listener logs"""

    def __init__(self, world, role, addr):
        self.world, self.role, self.addr = world, role, addr
        self.prot = None
        self.tr = None
        self.alive = False
        self.started = False
        self.incarnation = 0
        self.events = []  # current incarnation: (t, kind, key)
        self.all_events = 0

    def boot(self):
        import someip.config as C
        import someip.header as H
        import someip.sd as S

        w = self.world
        cfg = w.cfg
        tm = net.timings(INITIAL_DELAY_MIN=cfg["init"][0], INITIAL_DELAY_MAX=cfg["init"][1], REQUEST_RESPONSE_DELAY_MIN=RR[0],
                         REQUEST_RESPONSE_DELAY_MAX=RR[1], REPETITIONS_MAX=cfg["reps"], REPETITIONS_BASE_DELAY=cfg["base"],
                         CYCLIC_OFFER_DELAY=cfg["cyc"], FIND_TTL=3, ANNOUNCE_TTL=cfg["a_ttl"], SUBSCRIBE_TTL=cfg["s_ttl"],
                         SUBSCRIBE_REFRESH_INTERVAL=cfg["refresh"], SEND_COLLECTION_TIMEOUT=cfg["ct"])
        self.incarnation += 1
        self.boot_time = w.h.loop.time()
        self.events = []
        self.prot, self.tr = net.make_sd(w.h.loop, self.addr, timings=tm, net=w.net)
        stack = self
        mine = self.incarnation

        def ev(kind, key):
            if stack.incarnation != mine or not stack.alive:
                return  # a crashed incarnation is gone: its leftover TTL timers are an artefact of the emulation
            stack.all_events += 1
            hist = [e for e in stack.events if e[2] == key]
            stack.events.append((w.h.loop.time(), kind, key))
            first, again = ("offered", "stopped") if stack.role != "offerer" else ("subscribed", "unsubscribed")
            if not hist and kind != first:
                w.fail("listener-history-does-not-begin-with-" + first, stack, key)
            elif hist and hist[-1][1] == kind:
                w.fail("listener-history-not-alternating:" + kind + "-twice", stack, key)

        if self.role == "offerer":
            class L(S.ServerServiceListener):
                def client_subscribed(self, sub, source):
                    ev("subscribed", (source, sub.id, sub.counter))

                def client_unsubscribed(self, sub, source):
                    ev("unsubscribed", (source, sub.id, sub.counter))

            import ipaddress
            opt = H.IPv4EndpointOption(address=ipaddress.IPv4Address(self.addr[0]), l4proto=H.L4Protocols.UDP, port=3000)
            svc = C.Service(SVC[0], SVC[1], SVC[2], SVC[3], options_1=(opt,), eventgroups=frozenset({EG}))
            # the instance carries its own Timings object (a separate public constructor argument); in every other incarnation the
            # stack-wide one then says something else about offers - only the instance's own counts for its offers
            inst_tm = tm
            if self.incarnation % 2 == 0:
                import dataclasses
                inst_tm = dataclasses.replace(tm)
                self.prot.timings.ANNOUNCE_TTL = 1 if cfg["a_ttl"] != 1 else 2
                self.prot.timings.CYCLIC_OFFER_DELAY = 7.0
                self.prot.timings.REPETITIONS_MAX = 0
            self.prot.announcer.announce_service(S.ServiceInstance(svc, L(), self.prot.announcer, inst_tm))
        else:
            class L(S.ClientServiceListener):
                def service_offered(self, service, source):
                    ev("offered", (source, service.service_id, service.instance_id))

                def service_stopped(self, service, source):
                    ev("stopped", (source, service.service_id, service.instance_id))

            # any instance / any version / both / neither
            wild_i, wild_m = w.rng_cfg.choice(((True, True), (False, False), (True, False), (False, True)))
            eg = C.Eventgroup(service_id=SVC[0], instance_id=0xFFFF if wild_i else SVC[1], major_version=0xFF if wild_m else SVC[2],
                              eventgroup_id=EG, sockname=(self.addr[0], 4000), protocol=H.L4Protocols.UDP)
            self.prot.discovery.find_subscribe_eventgroup(eg)
            self.prot.discovery.watch_service(eg.as_service(), L())
        self.prot.start()
        self.alive = True
        self.started = True

    def graceful_stop(self):
        if self.alive and self.started:
            self.prot.stop()
            self.started = False

    def graceful_start(self):
        if self.alive and not self.started:
            # every other restart brings the three components up one by one (as tools/monitor-sd.py starts the discovery half
            # alone) instead of through the stack's start(); the stop that follows goes through the stack's stop() either way
            _STARTS[0] += 1
            if _STARTS[0] % 2:
                self.prot.subscriber.start()
                self.prot.announcer.start()
                self.prot.discovery.start()
                _STARTS[1] += 1
            else:
                self.prot.start()
            self.started = True

    def crash(self):
        if not self.alive:
            return
        self.tr.blackhole = True
        self.world.net.detach(self.addr)
        try:
            self.prot.stop()  # frees its timers; unobservable: the transport is a black hole
        except Exception as exc:  # noqa: B902
            self.world.raised.append(("stop-after-crash", repr(exc)))
        self.alive = False
        self.started = False
        self.prot = None

    def restart(self):
        if not self.alive:
            self.boot()


class World:
    def __init__(self, cfg, seed, watchers=1):
        self.cfg = cfg
        self.rng_cfg = random.Random("cfg" + str(seed))
        self.h = Harness(random.Random(seed), draw_mode="rand", max_iterations=600000)
        self.net = net.SimNet(self.h.loop, random.Random("net" + str(seed)), latency=cfg["lat"])
        self.stacks = {"O": Stack(self, "offerer", O_ADDR), "W": Stack(self, "watcher", W_ADDR)}
        if watchers > 1:
            self.stacks["W2"] = Stack(self, "watcher", W2_ADDR)
        self.violations = []
        self.raised = []

    def fail(self, mech, stack, key, **extra):
        if len(self.violations) < 3:
            self.violations.append((mech, dict(stack=stack.role + "@" + stack.addr[0], incarnation=stack.incarnation, key=key,
                                               t=self.h.loop.time(), history=[(e[0], e[1]) for e in stack.events if e[2] == key][-6:],
                                               **extra)))

    def act(self, a):
        try:
            st = self.stacks.get(a.get("who"))
            k = a["kind"]
            if k == "boot":
                for s in self.stacks.values():
                    s.boot()
            elif k == "stop":
                st.graceful_stop()
            elif k == "start":
                st.graceful_start()
            elif k == "crash":
                st.crash()
            elif k == "restart":
                st.restart()
            elif k == "fault":
                self.net.faults.append(a["fault"])
        except Exception as exc:  # noqa: B902
            self.raised.append((a, repr(exc)))


def reference_instants(cfg, seed):
    """datagram instants of a fault-free run (both directions), deduplicated"""
    w = World(cfg, seed)
    w.h.at(0.0, w.act, dict(kind="boot"))
    horizon = cfg["init"][1] + 2 * cfg["cyc"] + (cfg["refresh"] or 1.0) + 1.5
    w.h.run(horizon)
    ts = {round(x[0], 12) for x in w.net.log}
    if cfg["ct"]:
        # a datagram leaves one collection timeout after the timer that queued its first entry: that deadline, and an
        # instant inside the open collection window, are instants of the fault-free run as well
        ts |= {round(t - cfg["ct"], 12) for t in ts if t - cfg["ct"] > 0} | {round(t - cfg["ct"] / 2, 12) for t in ts if t - cfg["ct"] > 0}
    ts = sorted(ts)
    w.h.close()
    return ts, horizon


KINDS = ("O-stop-start", "W-stop-start", "O-crash-restart", "W-crash-restart", "O-stop", "W-stop", "O-crash", "W-crash",
         "loss", "dup", "jitter")


def disturbance(kind, t, rank, rng, cfg):
    """-> list of timed actions, end time of the disturbance"""
    gap = rng.choice((2.0 ** -6, 0.125, 0.5, 1.0, 2.5))
    who = kind[0] if kind[0] in "OW" else None
    if kind.endswith("stop-start"):
        if rng.random() < 0.2:
            # stop() immediately followed by start(): both calls inside one event-loop iteration
            return [(t, rank, dict(kind="stop", who=who)), (t, rank, dict(kind="start", who=who))], t
        return [(t, rank, dict(kind="stop", who=who)), (t + gap, BEFORE, dict(kind="start", who=who))], t + gap
    if kind.endswith("crash-restart"):
        return [(t, rank, dict(kind="crash", who=who)), (t + gap, BEFORE, dict(kind="restart", who=who))], t + gap
    if kind.endswith("-stop"):
        return [(t, rank, dict(kind="stop", who=who))], t
    if kind.endswith("-crash"):
        return [(t, rank, dict(kind="crash", who=who))], t
    length = rng.choice((0.25, 1.0, 2.5, 6.0))
    if kind == "loss":
        f = dict(t0=t, t1=t + length, loss=rng.choice((1.0, 0.5)))
    elif kind == "dup":
        f = dict(t0=t, t1=t + length, dup=rng.choice((1.0, 0.5)), dup_delays=(0.0, 2.0 ** -7, 0.25, 1.0))
    else:
        f = dict(t0=t, t1=t + length, jitter=(0.0, 2.0 ** -8, 2.0 ** -5, 0.25, 0.75))
    return [(t, rank, dict(kind="fault", fault=f))], t + length + 1.0


def run_script(ctx, cfg, actions, t_last, seed, replay, descr, watchers=1):
    w = World(cfg, seed, watchers)
    w.h.at(0.0, w.act, dict(kind="boot"))
    for t, rank, a in sorted(actions, key=lambda x: (x[0], x[1])):
        w.h.at(t, w.act, a, rank=rank)
    B = bound(cfg)
    # run to the end of the disturbances, wait for in-flight datagrams, then the convergence bound
    w.h.run(t_last + 2.0 ** -4)
    t_quiet = max(t_last, w.net.last_delivery)
    t_eval = t_quiet + B
    w.h.run(t_eval)
    ctx.count("scripts")
    ctx.count("stacks_restarted_component_by_component", _STARTS[1])
    _STARTS[1] = 0
    ctx.count("datagrams_exchanged", len(w.net.log))
    if cfg["a_ttl"] == FOREVER:
        ctx.count("infinite_ttl_scripts")
    O = w.stacks["O"]
    offering = O.alive and O.started
    nontrivial = False
    verdicts = []
    for name, st in w.stacks.items():
        if st.role != "watcher":
            continue
        running = st.alive and st.started
        if running:
            ctx.count("final_checks_watcher")
            key = (O_ADDR, SVC[0], SVC[1])
            last = [e for e in st.events if e[2] == key]
            said = bool(last) and last[-1][1] == "offered"
            if said != offering:
                w.fail("watcher-does-not-converge:" + ("says-offered-but-offerer-is-not-offering" if said else "offered-service-not-reported"),
                       st, key, offering=offering, evaluated_at=t_eval, quiet_since=t_quiet, bound=B)
            verdicts.append(("W", said, offering))
        if O.alive:
            ctx.count("final_checks_offerer")
            subs = {}
            for e in O.events:
                if e[2][0] == st.addr:
                    subs[e[2]] = e[1]
            said = any(v == "subscribed" for v in subs.values())
            want = offering and running
            undetectable = (
                cfg["a_ttl"] == FOREVER and want and not said and O.incarnation > 1 and st.boot_time < O.boot_time
                and not any(src == O_ADDR and dst == st.addr and mc and fate != "lost" and st.boot_time <= ts < O.boot_time
                            for ts, src, dst, mc, _d, fate in w.net.log))
            if undetectable:
                # the watcher (re)started, learnt the service by unicast only, and the offerer rebooted before any of its
                # multicast messages reached this watcher incarnation: no session history on that channel, no detection
                w.fail("infinite-ttl:offerer-reboot-undetectable-on-a-channel-without-history", O, (st.addr,),
                       offerer_restarted_at=O.boot_time, watcher_started_at=st.boot_time, evaluated_at=t_eval)
            elif said != want:
                w.fail("offerer-does-not-converge:" + ("says-subscribed-but-should-not" if said else "running-watcher-not-subscribed"),
                       O, (st.addr,), offering=offering, watcher_running=running, evaluated_at=t_eval, quiet_since=t_quiet, bound=B,
                       subscriptions={repr(k): v for k, v in subs.items()})
            verdicts.append(("O", said, want))
            if want and said:
                ctx.count("converged_offered_and_subscribed")
            if not want and not said:
                ctx.count("converged_withdrawn")
    ctx.count("alternation_events", sum(s.all_events for s in w.stacks.values()))
    problems = w.h.problems()
    w.h.close()
    for mech, detail in w.violations[:2]:
        detail.update(config=cfg["name"], disturbances=descr)
        ctx.violation(mech, detail, replay)
    for a, e in w.raised:
        ctx.violation("lifecycle-call-raises", dict(action=a, exc=e, config=cfg["name"], disturbances=descr), replay)
    for p in problems:
        ctx.violation("unexpected-exception-during-run", dict(problem=p, config=cfg["name"], disturbances=descr), replay)
    return True


def allowed_kinds(cfg):
    if cfg["a_ttl"] == FOREVER:
        return ("O-stop-start", "W-stop-start", "O-crash-restart", "W-crash-restart", "O-stop", "W-stop")
    return KINDS


def count_kinds(ctx, kinds, pls):
    for k in kinds:
        if "crash" in k:
            ctx.count("crashes")
        if k.endswith("restart"):
            ctx.count("restarts")
        if "stop" in k:
            ctx.count("graceful_stops")
        if k in ("loss", "dup", "jitter"):
            ctx.count("net_fault_windows")
    for p in pls:
        if p in ("d:before", "d:after"):
            ctx.count("placements_same_instant")
        if p == "d-res":
            ctx.count("placements_within_resolution_before_instant")


PLACEMENTS = ("d-eps", "d:before", "d:after", "d+eps", "d-res")


def placed(T, pl):
    # d-res: less than one clock resolution ahead of T: the loop runs what is due at T in that very iteration
    return {"d-eps": (T - EPS, BEFORE), "d:before": (T, BEFORE), "d:after": (T, AFTER), "d+eps": (T + EPS, BEFORE),
            "d-res": (T - RES / 2, BEFORE)}[pl]


def shards(tier, seed):
    n = 16
    if tier == "quick":
        return [dict(shard=i, nshards=n, seed=seed, stride=3, random=300, watchers=1) for i in range(n)]
    return [dict(shard=i, nshards=n, seed=seed, stride=1, random=9000, watchers=1 + (i % 2)) for i in range(n)]


def single_cases(cfg):
    """every (kind, reference instant, placement)"""
    ts, horizon = reference_instants(cfg, "ref")
    for kind in allowed_kinds(cfg):
        for j, T in enumerate(ts):
            if T <= 0:
                continue
            for pl in PLACEMENTS:
                yield kind, j, T, pl


def run(spec, ctx):
    base = f"C04/{spec['seed']}/{spec['shard']}"
    # ---- enumeration of single disturbances at the reference instants
    idx = 0
    for ci, cfg in enumerate(CONFIGS):
        for kind, j, T, pl in single_cases(cfg):
            idx += 1
            if idx % spec["nshards"] != spec["shard"]:
                continue
            if (idx // spec["nshards"]) % spec["stride"]:
                continue
            rng = random.Random(f"{base}/s/{idx}")
            t, rank = placed(T, pl)
            acts, t_last = disturbance(kind, t, rank, rng, cfg)
            run_script(ctx, cfg, acts, t_last, f"{base}/s/{idx}", dict(kind="single", idx=idx, shard=spec["shard"], seed=spec["seed"], watchers=spec["watchers"]),
                       [(kind, j, pl)], spec["watchers"])
            ctx.count("single_disturbance_enumerated")
            count_kinds(ctx, [kind], [pl])
            ctx.case(("single", cfg["name"], kind, j, pl), True,
                     sample=dict(config=cfg, disturbance=kind, reference_instant=T, placement=pl) if idx < 40 * spec["nshards"] and kind == "W-crash-restart" and pl == "d:after" else None)
    # ---- random pairs and scripts
    for i in range(spec["random"]):
        random_script(ctx, spec, base, i)


def random_script(ctx, spec, base, i):
    if True:
        rng = random.Random(f"{base}/r/{i}")
        cfg = rng.choice(CONFIGS) if rng.random() < 0.6 else random_config(rng)
        ctx.note("configurations", cfg["name"] if not cfg["name"].startswith("r") else "random")
        if cfg["name"].startswith("r"):
            ctx.count("random_configurations")
        ts, horizon = reference_instants(cfg, "ref")
        n = rng.choice((2, 2, 2, 3, 4, 6, 8)) if i % 3 else 2
        acts, descr, t_last = [], [], 0.0
        t = 0.0
        state = {"O": "up", "W": "up"}
        up_since = {"O": 0.0, "W": 0.0}
        settle = cfg["init"][1] + RR[1] + cfg["ct"] + 2 * cfg["lat"] + 0.125
        for _ in range(n):
            kind = rng.choice(allowed_kinds(cfg))
            who = kind[0] if kind[0] in "OW" else None
            if cfg["a_ttl"] == FOREVER and who:
                t = max(t, up_since[who] + settle)
            if who and state[who] != "up":
                kind = {"stopped": who + "-stop-start", "crashed": who + "-crash-restart"}[state[who]]
                # bring it back first
                back = "start" if state[who] == "stopped" else "restart"
                t += rng.choice((0.125, 0.5, 1.0))
                acts.append((t, BEFORE, dict(kind=back, who=who)))
                state[who] = "up"
                up_since[who] = t
                descr.append((back, who, "new"))
                t_last = max(t_last, t)
                continue
            if rng.random() < 0.6:
                T = rng.choice(ts) + rng.choice((0.0, horizon, 2 * horizon)) * (1 if rng.random() < 0.3 else 0)
                pl = rng.choice(PLACEMENTS)
                tt, rank = placed(max(T, t + 2.0 ** -6), pl) if T > t else (t + rng.choice((0.125, 0.5)), BEFORE)
            else:
                tt, rank, pl = t + rng.choice((2.0 ** -6, 0.125, 0.5, 1.0, 2.0, 3.5)), BEFORE, "new"
            a2, te = disturbance(kind, tt, rank, rng, cfg)
            acts += a2
            descr.append((kind, round(tt, 6), pl))
            t = max(tt, a2[-1][0])
            t_last = max(t_last, te)
            if who and a2[-1][2]["kind"] in ("start", "restart"):
                up_since[who] = a2[-1][0]
            if kind.endswith("-stop"):
                state[who] = "stopped"
            elif kind.endswith("-crash"):
                state[who] = "crashed"
            count_kinds(ctx, [kind], [pl])
        if cfg["a_ttl"] == FOREVER:
            # every crash must be followed by a restart in this configuration
            for who, s in state.items():
                if s == "crashed":
                    t += 0.5
                    acts.append((t, BEFORE, dict(kind="restart", who=who)))
                    t_last = max(t_last, t)
        run_script(ctx, cfg, acts, t_last, f"{base}/r/{i}", dict(kind="random", i=i, shard=spec["shard"], seed=spec["seed"], watchers=spec["watchers"]),
                   descr, spec["watchers"])
        ctx.case(("random", cfg["name"], tuple((d[0], d[2]) for d in descr)), True,
                 sample=dict(config=cfg["name"], disturbances=descr) if i < 1 else None)


def replay(doc, ctx):
    spec = dict(shard=doc["shard"], nshards=16, seed=doc["seed"], stride=1, random=0, watchers=doc.get("watchers", 1))
    base = f"C04/{spec['seed']}/{spec['shard']}"
    if doc["kind"] == "single":
        idx = 0
        for cfg in CONFIGS:
            for kind, j, T, pl in single_cases(cfg):
                idx += 1
                if idx == doc["idx"]:
                    rng = random.Random(f"{base}/s/{idx}")
                    t, rank = placed(T, pl)
                    acts, t_last = disturbance(kind, t, rank, rng, cfg)
                    run_script(ctx, cfg, acts, t_last, f"{base}/s/{idx}", doc, [(kind, j, pl)], spec["watchers"])
    else:
        random_script(ctx, spec, base, doc["i"])
    ctx.case(("replay",), True)
