"""C06 - server subscription records are truthful; acknowledged subscriptions are held."""
from __future__ import annotations

import itertools
import math
import random

from pv import net, refwire
from pv.vloop import Harness, EPS, BEFORE, AFTER, RES

ID = "C06"
LEVEL = "exploration"
TECHNIQUE = ("runtime server-listener history + SubscribeAck monitor vs subscription reference model evaluated at idle points of a "
             "virtual-time loop; bounded-exhaustive action/placement sequences plus random histories through datagram_received")
LEVEL_TEXT = ("Every action sequence up to length 3 over a 13-letter alphabet x 6 placement classes is enumerated (exhaustive core), "
              "longer random histories with 2 instances, 2 subscribers, several eventgroups/counters/endpoints on top; the real "
              "announcer runs on the virtual loop, listener call sequences are judged for alternation on every event, for truth (both "
              "directions) against the subscription model at every idle point, and the polarity of every SubscribeAck on the wire "
              "against the model's accept decision. Histories beyond the core are sampled")
LEVEL_NOTE = ("trusts the subscription model + reboot-detector model in this module and pv/refwire.py for decoding acknowledgements; "
              "the listener's accept/reject policy per subscription identity is scripted and may change during a history (a Subscribe at the "
              "exact deadline of a live subscription whose identity is currently rejected is not generated: it has two legitimate outcomes)")
TIEBREAK_VARIANTS = True  # thorough tier: some shards run equal-deadline timers LIFO / in seeded random order
RULE = (
    "alphabet: Subscribe ttl1 / ttl-inf, StopSubscribe, Subscribe for a second eventgroup, Subscribe the listener rejects, "
    "reboot+Subscribe, reboot only, service stop, service start, connection loss, Subscribe from a second subscriber, "
    "StopSubscribe+Subscribe in one message, Subscribe with another counter; placements: new instant, same loop iteration, "
    "d-eps / d ahead of the timer / d behind the timer / d+eps around the earliest pending TTL deadline; exhaustive to length 3, "
    "random histories of length <= 40. distinct = distinct (letter, placement) sequence; non-trivial = at least one subscription "
    "was accepted"
)
ASSUMPTIONS = ["subscription identity = (service, instance, major version, eventgroup, counter, endpoint set), as the library defines it",
               "truth is judged at idle points only; coincident Subscribe/deadline accepts both outcomes"]
FLOORS = {"quick": {"histories": 25000, "exhaustive_core_histories": 20000, "random_histories": 3000, "idle_truth_checks": 250000,
                    "alternation_events": 50000, "acks_judged": 80000, "positive_acks": 40000, "negative_acks": 15000,
                    "rejected_subscriptions": 5000, "policy_changes": 3000, "same_iteration_placements": 20000, "deadline_before_placements": 4000,
                    "deadline_after_placements": 4000, "reboot_with_subscribe_messages": 3000, "twin_listener_scenarios": 700, "messages_packed_into_one_datagram": 5000, "twin_listener_events": 8000,
                    "mesh_scenarios": 100, "mesh_final_checks_offerer": 90, "mesh_alternation_events": 600}}
# system-level shards: the mesh workload of pv/mesh.py under this property's boundary monitors (reports of other monitors are dropped)
MESH = {"want": ("converge",), "claim": ("mesh:offerer-does-not-converge", "mesh:subscription-listener-history"),
        "quick": (2, 60), "thorough": (16, 1500)}

FOREVER = 0xFFFFFF
# same host, other port; one link-local IPv6 address behind two interfaces (socket addresses differ in the scope id only)
SUBS = {"A": ("10.0.6.1", 30490), "B": ("10.0.6.1", 30491), "C": ("fe80::6", 30490, 0, 2), "D": ("fe80::6", 30490, 0, 3)}
SUB_NAME = {v: k for k, v in SUBS.items()}
# instances: name -> (service id, instance, major, eventgroups)
INSTANCES = {"X": (0x3001, 1, 1, (1, 2, 3)), "Y": (0x3002, 7, 2, (1,))}
# subscription identity tags: (instance name, eventgroup, counter, endpoint kind)
REJECTED = {("X", 3, 0, "v4"), ("X", 1, 15, "v4"), ("Y", 1, 1, "v6")}


def endpoint(sub, kind):
    n = "ABCD".index(sub) + 1
    if kind == "v4":
        return refwire.ep4(SUBS[sub][0] if ":" not in SUBS[sub][0] else f"10.0.6.{10 + n}", 4000)
    return refwire.ep6(f"2001:db8::{n}", 4000)


class Model:
    def __init__(self):
        self.live = {}  # (sub, tag) -> deadline
        self.sess = {}
        self.running = {n: True for n in INSTANCES}
        self.acks = {s: [] for s in SUBS}  # expected polarity list per subscriber
        self.accepted_any = False
        self.rejected = 0
        self.reboot_sub = 0
        self.policy = set(REJECTED)  # identities the listener currently rejects

    def expire(self, t, inclusive):
        for k in [k for k, d in self.live.items() if d != math.inf and (d <= t + RES if inclusive else d < t - RES)]:
            del self.live[k]

    def apply(self, t, a):
        kind = a["kind"]
        if kind == "msg":
            sub = a["sub"]
            k = (sub, a["mc"])
            old = self.sess.get(k)
            self.sess[k] = (a["flag"], a["sid"])
            if old is not None and a["flag"] and (not old[0] or a["sid"] <= old[1]):
                for key in [key for key in self.live if key[0] == sub]:
                    del self.live[key]
                if a["entries"]:
                    self.reboot_sub += 1
            if a["mc"]:
                return  # subscribes over multicast are discarded (C11)
            for tag, ttl in a["entries"]:
                key = (sub, tag)
                inst = tag[0]
                ok_inst = self.running[inst] and tag[1] in INSTANCES[inst][3]
                if ttl == 0:
                    if ok_inst:
                        self.live.pop(key, None)
                    else:
                        self.acks[sub].append(False)  # StopSubscribe nobody feels responsible for: negative ack
                    continue
                if not ok_inst:
                    self.acks[sub].append(False)
                    continue
                if key in self.live:
                    self.live[key] = math.inf if ttl == FOREVER else t + ttl
                    self.acks[sub].append(True)
                elif tag in self.policy:
                    self.acks[sub].append(False)
                    self.rejected += 1
                else:
                    self.live[key] = math.inf if ttl == FOREVER else t + ttl
                    self.acks[sub].append(True)
                    self.accepted_any = True
        elif kind == "policy":
            (self.policy.add if a["reject"] else self.policy.discard)(a["tag"])
        elif kind == "svc_stop":
            self.running[a["inst"]] = False
            for key in [key for key in self.live if key[1][0] == a["inst"]]:
                del self.live[key]
        elif kind == "svc_start":
            self.running[a["inst"]] = True
        elif kind == "lost":
            for n in self.running:
                self.running[n] = False
            self.live.clear()


class Run:
    def __init__(self, script, seed, collect):
        import someip.config as C
        import someip.sd as S

        self.script = script
        self.h = Harness(random.Random(seed), max_iterations=100000)
        tm = net.timings(INITIAL_DELAY_MIN=0, INITIAL_DELAY_MAX=0, REPETITIONS_MAX=0, CYCLIC_OFFER_DELAY=0,
                         SEND_COLLECTION_TIMEOUT=collect)
        self.prot, self.tr = net.make_sd(self.h.loop, ("10.0.6.100", 30490), timings=tm)
        self.events = []  # (seq, t, kind, sub, tag)
        self.seq = itertools.count()
        self.model = Model()
        self.pos = 0
        self.executed = 0
        self.violations = []
        self.stats = dict(idle_truth_checks=0, alternation_events=0, acks_judged=0, positive_acks=0, negative_acks=0)
        self.policy = set(REJECTED)
        self.instances = {}
        for name, (sid, iid, maj, egs) in INSTANCES.items():
            svc = C.Service(sid, iid, maj, 0, eventgroups=frozenset(egs))
            self.instances[name] = S.ServiceInstance(svc, self._listener(name), self.prot.announcer, tm)

    def _listener(self, inst):
        run = self
        import someip.sd as S

        class L(S.ServerServiceListener):
            def client_subscribed(self, sub, source):
                tag = run._tag(inst, sub)
                if tag in run.policy:
                    raise S.NakSubscription()
                run._event("subscribed", source, tag)

            def client_unsubscribed(self, sub, source):
                run._event("unsubscribed", source, run._tag(inst, sub))

        return L()

    @staticmethod
    def _tag(inst, sub):
        kinds = set()
        for ep in sub.endpoints:
            kinds.add("v4" if ep.address.version == 4 else "v6")
        return (inst, sub.id, sub.counter, "+".join(sorted(kinds)) or "none")

    def _event(self, kind, source, tag):
        sub = SUB_NAME.get(source, source)
        self.events.append((next(self.seq), self.h.loop.time(), kind, sub, tag))
        self.stats["alternation_events"] += 1
        hist = [e for e in self.events if e[3] == sub and e[4] == tag]
        if len(hist) == 1:
            if kind != "subscribed":
                self.fail("subscription-history-does-not-begin-with-subscribed", sub, tag, hist)
        elif hist[-2][2] == kind:
            self.fail("subscription-history-not-alternating:" + kind + "-twice", sub, tag, hist)

    def fail(self, mech, sub, tag, hist, extra=None):
        if len(self.violations) < 3:
            self.violations.append((mech, dict(subscriber=sub, subscription=tag, t=self.h.loop.time(),
                                               history=[(e[1], e[2]) for e in hist][-6:], extra=extra)))

    def do(self, a):
        self.executed += 1  # script order is execution order (a hopped action is the last one of its instant)
        ann = self.prot.announcer
        k = a["kind"]
        if k == "msg":
            if a.get("packed") == "first":
                self._held = a["data"]
            elif a.get("packed") == "second":
                self.prot.datagram_received(bytes(self._held) + bytes(a["data"]), SUBS[a["sub"]], a["mc"])
            else:
                self.prot.datagram_received(a["data"], SUBS[a["sub"]], a["mc"])
        elif k == "policy":
            (self.policy.add if a["reject"] else self.policy.discard)(a["tag"])
        elif k == "svc_stop":
            # either way of naming what to stop: the instance object, or - as SimpleService.stop_announce does - its description
            inst = self.instances[a["inst"]]
            ann.stop_announce_service(inst.service if self.executed % 2 else inst)
        elif k == "svc_start":
            ann.announce_service(self.instances[a["inst"]])
        elif k == "lost":
            self.prot.connection_lost(None if self.executed % 2 else OSError("transport failed"))

    def on_idle(self):
        T = self.h.loop.time()
        m = self.model
        # the model follows what has actually been executed (an action scheduled exactly one resolution after T may or may
        # not have run in the iteration that just ended - comparing instants cannot tell)
        while self.pos < min(len(self.script), self.executed):
            t, rank, a = self.script[self.pos]
            m.expire(t, inclusive=False)
            m.apply(t, a)
            self.pos += 1
        # a deadline one resolution ahead of T to within rounding: run in the iteration that just ended or in the next
        band = {k for k, d in m.live.items() if d != math.inf and abs(d - (T + RES)) <= RES}
        m.expire(T, inclusive=True)
        latest = {}
        for e in self.events:
            latest[(e[3], e[4])] = e
        keys = set(latest) | set(m.live)
        for key in keys:
            if key in band:
                continue
            self.stats["idle_truth_checks"] += 1
            le = latest.get(key)
            said = le is not None and le[2] == "subscribed"
            if said and key not in m.live:
                self.fail("listener-says-subscribed-but-subscription-not-live", key[0], key[1],
                          [e for e in self.events if (e[3], e[4]) == key])
            elif not said and key in m.live:
                self.fail("live-acknowledged-subscription-not-held", key[0], key[1],
                          [e for e in self.events if (e[3], e[4]) == key])

    def execute(self, horizon):
        h = self.h

        def setup():
            for inst in self.instances.values():
                self.prot.announcer.announce_service(inst)
            self.prot.announcer.start()

        h.at(0.0, setup)
        h.loop.idle_hooks.append(self.on_idle)
        # two messages one subscriber sends in the same instant over the same channel travel in ONE datagram in half of the cases
        # (several SOME/IP messages per UDP frame are legal): they are handled in wire order all the same
        for i in range(len(self.script) - 1):
            (t1, r1, a1), (t2, r2, a2) = self.script[i], self.script[i + 1]
            if a1["kind"] == a2["kind"] == "msg" and (t1, r1) == (t2, r2) and not a1.get("hops") and not a2.get("hops") \
                    and a1["sub"] == a2["sub"] and a1["mc"] == a2["mc"] and not a1.get("packed") and i % 2 == 0:
                a1["packed"], a2["packed"] = "first", "second"
                self.stats["messages_packed_into_one_datagram"] = self.stats.get("messages_packed_into_one_datagram", 0) + 2
        for t, rank, a in self.script:
            h.at(t, self.do, a, rank=rank, hops=a.get("hops", 0))
        h.run(horizon)
        problems = h.problems(allowed_logged=("ParseError", "IncompleteReadError", "OSError"))  # the injected transport failure is logged with its traceback
        # acknowledgement polarity per subscriber, in wire order
        try:
            sent = net.decode_sent(self.tr.sent)
        except refwire.RefError as exc:
            sent = []
            problems.append(("undecodable-transmission", repr(exc)))
        got = {s: [] for s in SUBS}
        for msg in sent:
            dst = SUB_NAME.get(msg["dst"])
            for e in msg["entries"]:
                if e["type"] == 7:
                    if dst is None:
                        self.fail("subscribe-ack-sent-to-someone-else", str(msg["dst"]), None, [])
                    else:
                        got[dst].append(e["ttl"] > 0)
        for s in SUBS:
            exp = self.model.acks[s]
            self.stats["acks_judged"] += len(exp)
            self.stats["positive_acks"] += sum(1 for x in exp if x)
            self.stats["negative_acks"] += sum(1 for x in exp if not x)
            if got[s] != exp:
                i = next((i for i, (x, y) in enumerate(itertools.zip_longest(got[s], exp)) if x != y), 0)
                self.fail("subscribe-ack-polarity-differs-from-accept-decision", s, None, [],
                          dict(index=i, got=got[s][max(0, i - 2):i + 3], expected=exp[max(0, i - 2):i + 3]))
        h.close()
        return problems


class Builder:
    def __init__(self):
        self.sess = {s: net.PeerSession() for s in SUBS}
        self.script = []
        self.now = 0.25
        self.deadlines = {}
        self.running = {n: True for n in INSTANCES}
        self.lost = False
        self.last_rank = BEFORE
        self.last_hops = 0
        self.policy = set(REJECTED)

    def pending(self):
        ds = sorted(d for d in self.deadlines.values() if d != math.inf and d > self.now + 2 * EPS)
        return ds[0] if ds else None

    def place(self, placement):
        if placement == "new":
            t = self.now + 0.25
            while any(d != math.inf and abs(d - t) < 4 * EPS for d in self.deadlines.values()):
                t += 2.0 ** -5
            return t, BEFORE
        if placement in ("same", "same+1", "same+2"):
            if not self.script or self.last_hops:
                return None  # nothing more in the instant of a hopped action: script order stays execution order
            return self.now, self.last_rank
        d = self.pending()
        if d is None:
            return None
        return {"d-eps": (d - EPS, BEFORE), "d:before": (d, BEFORE), "d:after": (d, AFTER), "d+eps": (d + EPS, BEFORE),
                "d:after+1": (d, AFTER), "d-res": (d - RES / 2, BEFORE)}[placement]

    def add(self, action, placement):
        a = dict(action)
        k = a["kind"]
        if self.lost:
            return False  # after connection loss the transport delivers nothing any more
        if k == "svc_stop" and not self.running[a["inst"]]:
            return False
        if k == "svc_start" and self.running[a["inst"]]:
            return False
        p = self.place(placement)
        if p is None:
            return False
        t, rank = p
        if k == "policy":
            (self.policy.add if a["reject"] else self.policy.discard)(a["tag"])
        if k == "msg":
            sub = a["sub"]
            for tag, ttl in a["entries"]:
                d = self.deadlines.get((sub, tag))
                if ttl and tag in self.policy and d is not None and d != math.inf and abs(d - t) <= RES:
                    # Subscribe at the deadline of a live subscription the listener would now reject: "refresh wins" and
                    # "expired, then rejected" are both legitimate, so this history would have no single expected outcome
                    return False
            if a.get("reboot"):
                self.sess[sub].reboot()
            flag, sid = self.sess[sub].next("m" if a["mc"] else "u")
            a["flag"], a["sid"] = flag, sid
            ents = []
            pres = a.get("pres") or [0] * len(a["entries"])
            for (tag, ttl), pv in zip(a["entries"], pres):
                sidv, iid, maj, _egs = INSTANCES[tag[0]]
                eps = [endpoint(sub, kk) for kk in tag[3].split("+")] if tag[3] != "none" else []
                o1, o2 = eps, []
                if pv:
                    # the same subscription presented differently on the wire: endpoint options in another order, split
                    # over the two option runs, non-endpoint options in between - none of it is part of its identity
                    prng = random.Random(pv)
                    prng.shuffle(eps)
                    cut = prng.randrange(len(eps) + 1)
                    o1, o2 = eps[:cut], eps[cut:]
                    extra = prng.choice((None, None, refwire.opt_loadbal(1, 2), refwire.opt_config([b"a=1"]),
                                         refwire.ep4("10.0.0.99", 30490, typ=0x24), refwire.ep4("239.1.1.9", 30490, typ=0x14)))
                    if extra is not None:
                        run = prng.choice((o1, o2))
                        run.insert(prng.randrange(len(run) + 1), extra)
                ents.append(net.subscribe(sidv, iid, maj, tag[1], ttl, counter=tag[2], o1=o1, o2=o2))
            if a.get("offer_entry"):
                ents = [net.offer(0x7777, 1, 1, 0, 3)]
            # a message without Subscribe entries (pure reboot evidence, or an Offer) is sent with the unicast flag CLEAR every other
            # time: its entries would be ignored anyway, but it is a received SD message - the reboot it reveals is applied
            flag_clear = (not a["entries"]) and len(self.script) % 2 == 0
            a["data"] = net.sd_bytes(net.with_riders(ents, len(self.script) // 3), sid, reboot=flag, unicast=not flag_clear)
            for kk in [kk for kk, d in self.deadlines.items() if d != math.inf and d < t - RES]:
                del self.deadlines[kk]
            if a.get("reboot"):
                for kk in [kk for kk in self.deadlines if kk[0] == sub]:
                    del self.deadlines[kk]
            if not a["mc"]:
                for tag, ttl in a["entries"]:
                    if ttl == 0 or (tag in self.policy and (sub, tag) not in self.deadlines) or not self.running[tag[0]] \
                            or tag[1] not in INSTANCES[tag[0]][3]:
                        if ttl == 0:
                            self.deadlines.pop((sub, tag), None)
                    else:
                        self.deadlines[(sub, tag)] = math.inf if ttl == FOREVER else t + ttl
        elif k == "svc_stop":
            self.running[a["inst"]] = False
            for kk in [kk for kk in self.deadlines if kk[1][0] == a["inst"]]:
                del self.deadlines[kk]
        elif k == "svc_start":
            self.running[a["inst"]] = True
        elif k == "lost":
            self.lost = True
            self.deadlines.clear()
            for n in self.running:
                self.running[n] = False
        hops = int(placement.split("+")[1]) if "+" in placement and placement != "d+eps" else 0
        a["hops"] = hops
        self.script.append((t, rank, a))
        self.now = t
        self.last_rank = rank
        self.last_hops = hops
        return True

    def horizon(self):
        fin = [d for d in self.deadlines.values() if d != math.inf]
        h = max([self.now] + fin) + 1.0
        if getattr(self, "outlive", False) and any(d == math.inf for d in self.deadlines.values()):
            # an entry with the infinite TTL is still there when 0xFFFFFF seconds (194 days) have gone by
            h += FOREVER + 300.0
        return h


I1 = ("X", 1, 0, "v4")
I1c = ("X", 1, 1, "v4")
I2 = ("X", 2, 0, "v4")
IREJ = ("X", 3, 0, "v4")
ALPHABET = {
    "subA1t1": dict(kind="msg", sub="A", mc=False, entries=[(I1, 1)]),
    "subA1inf": dict(kind="msg", sub="A", mc=False, entries=[(I1, FOREVER)]),
    "stopA1": dict(kind="msg", sub="A", mc=False, entries=[(I1, 0)]),
    "subA2t2": dict(kind="msg", sub="A", mc=False, entries=[(I2, 2)]),
    "subArej": dict(kind="msg", sub="A", mc=False, entries=[(IREJ, 3)]),
    "rebootA+sub1": dict(kind="msg", sub="A", mc=False, entries=[(I1, 3)], reboot=True),
    "rebootA": dict(kind="msg", sub="A", mc=False, entries=[], reboot=True),
    "svc_stop": dict(kind="svc_stop", inst="X"),
    "svc_start": dict(kind="svc_start", inst="X"),
    "lost": dict(kind="lost"),
    "subB1t1": dict(kind="msg", sub="B", mc=False, entries=[(I1, 1)]),
    "stop+subA1t2": dict(kind="msg", sub="A", mc=False, entries=[(I1, 0), (I1, 2)]),
    "subA1c1t1": dict(kind="msg", sub="A", mc=False, entries=[(I1c, 1)]),
    "reject-I1": dict(kind="policy", tag=I1, reject=True),
    "accept-I1": dict(kind="policy", tag=I1, reject=False),
}
LETTERS = list(ALPHABET)
PLACEMENTS = ("new", "same", "same+1", "d-eps", "d:before", "d:after", "d+eps")


def replay_builder(seq):
    b = Builder()
    for letter, pl in seq:
        if not b.add(ALPHABET[letter], pl):
            return None
    return b


def extensions(seq):
    for letter in LETTERS:
        for pl in PLACEMENTS:
            if not seq and pl != "new":
                continue
            b = replay_builder(seq)
            if b.add(ALPHABET[letter], pl):
                yield seq + ((letter, pl),)


def core_sequences(length, shard, nshards, rng, sample):
    """lengths 1..3 completely: levels 1 and 2 are built by every shard (cheap) and judged by index modulo; each shard then
    extends only its share of the length-2 prefixes to length 3 and, for length 4, samples the extensions of those"""
    level = [()]
    for depth in (1, 2):
        level = [ext for seq in level for ext in extensions(seq)]
        yield depth, [x for k, x in enumerate(level) if k % nshards == shard], True
        if depth == length:
            return
    for seq in [x for k, x in enumerate(level) if k % nshards == shard]:
        exts = list(extensions(seq))
        yield 3, exts, True
        if length >= 4:
            for seq3 in exts:
                picked = [ext for ext in extensions(seq3) if rng.random() < sample]
                if picked:
                    yield 4, picked, False


TAGS = [("X", eg, c, k) for eg in (1, 2, 3, 4) for c in (0, 1, 15) for k in ("v4", "v6")] + \
       [("Y", 1, c, k) for c in (0, 1) for k in ("v4", "v6")] + [("X", 1, 0, "none"), ("X", 2, 0, "v4+v6")]
TWO_ENDPOINTS = [("X", 2, 0, "v4+v6"), ("X", 1, 1, "v4+v6"), ("Y", 1, 0, "v4+v6")]


def random_history(rng):
    b = Builder()
    n = rng.randrange(4, 41)
    seq = []
    hot = rng.sample(TAGS, 4)
    if rng.random() < 0.5:
        hot[0] = rng.choice(TWO_ENDPOINTS)
    for _ in range(n):
        r = rng.random()
        if r < 0.62:
            sub = rng.choice("AABCD")
            ents = []
            for _ in range(rng.choice((1, 1, 1, 2, 3))):
                tag = rng.choice(hot) if rng.random() < 0.75 else rng.choice(TAGS)
                ents.append((tag, rng.choice((0, 0, 1, 1, 2, 3, FOREVER))))
            a = dict(kind="msg", sub=sub, mc=rng.random() < 0.08, entries=ents, reboot=rng.random() < 0.12,
                     pres=[rng.randrange(1, 1 << 30) if rng.random() < 0.6 else 0 for _ in ents])
        elif r < 0.7:
            a = dict(kind="msg", sub=rng.choice("ABCD"), mc=rng.random() < 0.4, entries=[], reboot=True, offer_entry=rng.random() < 0.5)
        elif r < 0.82:
            inst = rng.choice("XXY")
            a = dict(kind="svc_start" if not b.running[inst] else "svc_stop", inst=inst)
        elif r < 0.86:
            a = dict(kind="lost")
        elif r < 0.92:
            tg = rng.choice(hot)
            a = dict(kind="policy", tag=tg, reject=tg not in b.policy)
        else:
            a = dict(kind="msg", sub=rng.choice("ABCD"), mc=False, entries=[(rng.choice(hot), rng.choice((1, 2)))])
        pl = rng.choice(("new", "new", "same", "same", "same+1", "same+2", "d-eps", "d:before", "d:after", "d:after+1", "d+eps", "d-res"))
        if b.add(a, pl):
            seq.append((a["kind"], pl))
    b.outlive = rng.random() < 0.15
    return b, tuple(seq)


def brief(script):
    return [(t, rank, {k: v for k, v in a.items() if k != "data"}) for t, rank, a in script][:14]


def judge(ctx, builder, seed, replay, core, collect):
    run = Run(builder.script, seed, collect)
    problems = run.execute(builder.horizon())
    ctx.count("histories")
    ctx.count("exhaustive_core_histories" if core else "random_histories")
    for k, v in run.stats.items():
        ctx.count(k, v)
    ctx.count("rejected_subscriptions", run.model.rejected)
    ctx.count("reboot_with_subscribe_messages", run.model.reboot_sub)
    ctx.count("policy_changes", sum(1 for _t, _r, a in builder.script if a["kind"] == "policy"))
    for mech, detail in run.violations[:2]:
        detail["script"] = brief(builder.script)
        detail["collection_timeout"] = collect
        ctx.violation(mech, detail, replay)
    for p in problems:
        ctx.violation("unexpected-exception-during-run", dict(problem=p, script=brief(builder.script)), replay)
    return run.model.accepted_any


def count_placements(ctx, seq):
    for _l, pl in seq:
        if pl == "same":
            ctx.count("same_iteration_placements")
        elif "+" in pl and pl != "d+eps":
            ctx.count("later_iteration_same_instant_placements")
        elif pl == "d:before":
            ctx.count("deadline_before_placements")
        elif pl == "d:after":
            ctx.count("deadline_after_placements")
        elif pl in ("d-eps", "d+eps"):
            ctx.count("adjacent_iteration_placements")
        elif pl == "d-res":
            ctx.count("within_resolution_before_deadline_placements")


# ------------------------------------------------------------------------------------- one service, two listeners
def twin_listeners(ctx, seed, replay):
    """The same service description announced twice, each time with its own listener (the repository's tests do this): every
    Subscribe / StopSubscribe / reboot / expiry concerns both records, so the two listeners must be told exactly the same, each
    history alternates, and at the end each listener's last word is 'subscribed' exactly for the subscriptions still live."""
    import someip.config as C
    import someip.sd as S

    rng = random.Random("twins" + str(seed))
    h = Harness(random.Random(seed), max_iterations=100000)
    ct = rng.choice((0, 2.0 ** -8))
    tm = net.timings(INITIAL_DELAY_MIN=0, INITIAL_DELAY_MAX=0, REPETITIONS_MAX=0, CYCLIC_OFFER_DELAY=0, SEND_COLLECTION_TIMEOUT=ct)
    prot, tr = net.make_sd(h.loop, ("10.0.6.100", 30490), timings=tm)
    logs = {1: [], 2: []}

    def listener(n):
        class L(S.ServerServiceListener):
            def client_subscribed(self, sub, source):
                logs[n].append((h.loop.time(), "subscribed", source, (sub.instance_id, sub.id)))

            def client_unsubscribed(self, sub, source):
                logs[n].append((h.loop.time(), "unsubscribed", source, (sub.instance_id, sub.id)))

        return L()

    # every other scenario the description leaves the instance open (0xFFFF: "any instance", which matching supports on the
    # server side too) and the subscribers name two concrete instances: each is a subscription of its own
    import zlib
    wild = zlib.crc32(str(seed).encode()) % 2 == 0
    svc = C.Service(0x3003, 0xFFFF if wild else 1, 1, 0, eventgroups=frozenset({1, 2}))
    if wild:
        ctx.count("twin_listener_scenarios_with_the_instance_left_open")
    insts = [S.ServiceInstance(svc, listener(n), prot.announcer, tm) for n in (1, 2)]
    # every other scenario a further service of the same application is announced in front of them whose listener withdraws it
    # as soon as its (only) client is gone - from inside the report (D12): what the other listeners are told does not depend
    # on it
    withdrawing = zlib.crc32(str(seed).encode() + b"w") % 2 == 0
    wlog = []

    class Withdrawing(S.ServerServiceListener):
        def client_subscribed(self, sub, source):
            wlog.append("subscribed")

        def client_unsubscribed(self, sub, source):
            wlog.append("unsubscribed")
            if winst in prot.announcer.announcing_services:
                prot.announcer.stop_announce_service(winst)

    winst = S.ServiceInstance(C.Service(0x3004, 1, 1, 0, eventgroups=frozenset({1})), Withdrawing(), prot.announcer, tm)

    def setup():
        if withdrawing:
            prot.announcer.announce_service(winst)
        for i in insts:
            prot.announcer.announce_service(i)
        prot.announcer.start()

    h.at(0.0, setup)
    subs = [SUBS["A"], SUBS["C"]]
    sess = {a: net.PeerSession() for a in subs}
    live = {}  # (addr, eg) -> deadline
    t = 0.5
    script = []
    if withdrawing:
        # its client: the first subscriber, once, for good
        fl, sid = sess[subs[0]].next()
        h.at(0.375, prot.datagram_received, net.sd_bytes([net.subscribe(0x3004, 1, 1, 1, FOREVER, o1=[refwire.ep4("10.0.6.1", 4000)])], sid, reboot=fl),
             subs[0], False)
        ctx.count("twin_listener_scenarios_next_to_a_service_withdrawn_from_inside_a_report")
    for k in range(rng.randrange(4, 22)):
        t += rng.choice((2.0 ** -6, 0.125, 0.5, 0.75, 1.5)) + 2.0 ** -12
        a = rng.choice(subs)
        eg = (rng.choice((1, 2)) if wild else 1, rng.choice((1, 2)))
        ep = [refwire.ep4("10.0.6.1", 4000)] if a == subs[0] else [refwire.ep6("2001:db8::6", 4000)]
        for key in [key for key, d in live.items() if d <= t]:
            del live[key]
        r = rng.random()
        if r < 0.45:
            ttl = rng.choice((2, 2, FOREVER))
            ents, what = [net.subscribe(0x3003, eg[0], 1, eg[1], ttl, o1=ep)], "sub"
            live[(a, eg)] = math.inf if ttl == FOREVER else t + ttl
        elif r < 0.7:
            ents, what = [net.subscribe(0x3003, eg[0], 1, eg[1], 0, o1=ep)], "stop"
            live.pop((a, eg), None)
        elif r < 0.88:
            ents, what = [net.subscribe(0x3003, eg[0], 1, eg[1], 0, o1=ep), net.subscribe(0x3003, eg[0], 1, eg[1], 2, o1=ep)], "stop+sub"
            live[(a, eg)] = t + 2
        else:
            sess[a].reboot()
            ents, what = [net.find(0x7777)], "reboot"
            for key in [key for key in live if key[0] == a]:
                del live[key]
        fl, sid = sess[a].next()
        script.append((round(t, 6), what, a, eg))
        h.at(t, prot.datagram_received, net.sd_bytes(ents, sid, reboot=fl), a, False)
    t_end = t + 0.5 + 2.0 ** -12 * 40
    for key in [key for key, d in live.items() if d <= t_end]:
        del live[key]
    h.run(t_end)
    problems = h.problems(allowed_logged=("ParseError", "IncompleteReadError", "NakSubscription"))
    h.close()
    ctx.count("twin_listener_scenarios")
    ctx.count("twin_listener_events", len(logs[1]) + len(logs[2]))
    detail = dict(script=script[:24], collection_timeout=ct)
    for p in problems:
        ctx.violation("unexpected-exception-during-run", dict(problem=p, **detail), replay)
    if wlog not in ([], ["subscribed"], ["subscribed", "unsubscribed"]):
        ctx.violation("subscription-history-not-alternating:listener-that-withdraws-its-service-inside-the-report",
                      dict(told=wlog[:6], **detail), replay)
    if logs[1] != logs[2]:
        i = next((i for i, (x, y) in enumerate(itertools.zip_longest(logs[1], logs[2])) if x != y), 0)
        ctx.violation("two-listeners-of-one-service-are-told-different-things",
                      dict(first_difference=i, listener_1=logs[1][i:i + 3], listener_2=logs[2][i:i + 3], **detail), replay)
    for n in (1, 2):
        last = {}
        for tt, kind, src, egid in logs[n]:
            key = (src, egid)
            if last.get(key, "unsubscribed") == kind:
                ctx.violation("subscription-history-not-alternating:" + kind + "-twice", dict(listener=n, key=key, at=tt, **detail), replay)
                break
            last[key] = kind
        said = {key for key, kind in last.items() if kind == "subscribed"}
        if said != set(live):
            ctx.violation("listener-says-subscribed-but-subscription-not-live" if said - set(live) else "live-acknowledged-subscription-not-held",
                          dict(listener=n, says=sorted(said), live=sorted(live), **detail), replay)
    return len(script) > 6


def shards(tier, seed):
    n = 16
    out = [dict(shard=i, nshards=n, seed=seed, mode="core", length=3 if tier == "quick" else 4,
                sample=None if tier == "quick" else 0.02) for i in range(n)]
    out += [dict(shard=100 + i, seed=seed, mode="random", n=300 if tier == "quick" else 40000) for i in range(n)]
    out += [dict(shard=200 + i, seed=seed, mode="twins", n=400 if tier == "quick" else 30000) for i in range(2)]
    return out


def run(spec, ctx):
    if spec["mode"] == "twins":
        base = f"C06twins/{spec['seed']}/{spec['shard']}"
        for i in range(spec["n"]):
            nt = twin_listeners(ctx, f"{base}/{i}", dict(kind="twins", seedkey=f"{base}/{i}"))
            ctx.case(("twins", i), nt)
        return
    if spec["mode"] == "core":
        rng = random.Random(f"C06core/{spec['seed']}/{spec['shard']}")
        shown = 0
        k = 0
        for depth, items, full in core_sequences(spec["length"], spec["shard"], spec["nshards"], rng, spec["sample"] or 0.0):
            for seq in items:
                k += 1
                b = replay_builder(seq)
                collect = 0 if k % 3 else 2.0 ** -8
                nt = judge(ctx, b, "core", dict(kind="core", seq=[list(x) for x in seq], collect=collect), full, collect)
                count_placements(ctx, seq)
                ctx.case(("core", seq), nt, sample=dict(actions=[list(x) for x in seq], collection_timeout=collect)
                         if depth == 3 and shown < 2 else None)
                shown += depth == 3
        return
    base = f"C06/{spec['seed']}/{spec['shard']}"
    for i in range(spec["n"]):
        rng = random.Random(f"{base}/{i}")
        b, seq = random_history(rng)
        collect = rng.choice((0, 0, 2.0 ** -8))
        nt = judge(ctx, b, f"{base}/{i}", dict(kind="random", base=base, index=i), False, collect)
        count_placements(ctx, seq)
        ctx.case(("rand", seq, tuple(a["kind"] == "msg" and (a["sub"], a["mc"], tuple(a["entries"]), bool(a.get("reboot")))
                                      for _t, _r, a in b.script)), nt,
                 sample=dict(length=len(seq), head=brief(b.script)[:5]) if i < 1 else None)


def replay(doc, ctx):
    if doc["kind"] == "twins":
        twin_listeners(ctx, doc["seedkey"], doc)
        ctx.case(("replay",), True)
        return
    if doc["kind"] == "core":
        seq = tuple(tuple(x) for x in doc["seq"])
        judge(ctx, replay_builder(seq), "core", doc, True, doc["collect"])
    else:
        rng = random.Random(f"{doc['base']}/{doc['index']}")
        b, seq = random_history(rng)
        collect = rng.choice((0, 0, 2.0 ** -8))
        judge(ctx, b, f"{doc['base']}/{doc['index']}", doc, False, collect)
    ctx.case(("replay",), True)
