"""C15 - queued SD entries are sent exactly once, in order, to the right peer, in time."""
from __future__ import annotations

import collections
import random

from pv import net, refwire
from pv.vloop import Harness, EPS, BEFORE, AFTER, RES

ID = "C15"
LEVEL = "exploration"
TECHNIQUE = ("runtime exactly-once / order / routing / latency checker: log of the public queue_send boundary vs decoded transport log "
             "of a live announcer on a virtual-time loop, requests placed around every collection-window close")
LEVEL_TEXT = ("Held on every generated scenario of the run: uniquely tagged entries queued in bursts of 1-40 for 1-4 destinations at "
              "random instants and at d-eps / d ahead of the timer / d behind the timer / d+eps of the open collection window's close, "
              "with collection timeout zero and non-zero, also while the announcer is being stopped, plus real traffic (offers, "
              "stop-offers, acknowledgements, find answers) of running instances; the wire log must contain every queued entry exactly "
              "once, per destination in queue order, within the timeout, never mixed across destinations")
LEVEL_NOTE = "trusts pv/refwire.py for decoding; queue instants are taken from a wrapper on the public ServiceAnnouncer.queue_send (its evaluations are counted)"
TIEBREAK_VARIANTS = True  # thorough tier: some shards run equal-deadline timers LIFO / in seeded random order
RULE = (
    "direct part: 5-80 queue_send calls with unique (service, instance) tags, destination in {multicast, 3 unicast peers incl. IPv6}, "
    "burst sizes 1-40, options on some entries, placed at random instants or around the close of the destination's open collection "
    "window; real part: 1-2 announced instances with Subscribe / FindService datagrams and stop/start. distinct = distinct "
    "(timeout, destination/placement/burst pattern); non-trivial = at least two entries shared a collection window or a request "
    "coincided with a window close"
)
ASSUMPTIONS = ["latency bound = SEND_COLLECTION_TIMEOUT plus 4 clock resolutions"]
FLOORS = {"quick": {"scenarios": 5000, "entries_queued": 150000, "entries_matched": 150000, "datagrams": 40000,
                    "request_at_close_before": 2000, "request_at_close_after": 2000, "request_close_adjacent": 3500,
                    "bursts_over_15": 2000, "zero_timeout_scenarios": 1000, "requests_during_stop": 500, "real_traffic_scenarios": 800, "collection_timeout_reassigned_at_a_quiet_instant": 250,
                    "mesh_scenarios": 100, "mesh_queue_entries_checked": 3000}}
# system-level shards: the mesh workload of pv/mesh.py under this property's boundary monitors (reports of other monitors are dropped)
MESH = {"want": ("queue",), "claim": ("mesh:queued-", "mesh:entry-on-the-wire"),
        "quick": (2, 60), "thorough": (16, 1500)}

DSTS = [None, ("10.0.10.2", 30490), ("10.0.10.2", 30491), ("2001:db8::a3", 30490, 0, 0)]  # two peers on one host
# further unicast destinations that differ from another one in a single component of the socket address only
# (one link-local address behind two interfaces: scope id; flow label)
DSTS_MORE = [("fe80::1", 30490, 0, 2), ("fe80::1", 30490, 0, 3), ("2001:db8::a3", 30490, 7, 0)]


def wire_dst(d):
    return net.MCAST if d is None else d


def check_logs(ctx, qlog, sent, ct, replay, detail, horizon, change=None):
    """qlog: [(t, dst, tag)], sent: decoded messages with entries carrying 'tag'; change = (instant, new timeout) if the
    application assigned another (non-zero) SEND_COLLECTION_TIMEOUT at a quiet instant of the run"""
    ok = True
    ct_first = ct

    def ct_of(tq):
        return change[1] if change is not None and tq >= change[0] else ct_first

    if change is not None:
        ct = max(ct, change[1])

    def bad(mech, **d):
        nonlocal ok
        ok = False
        d.update(detail)
        ctx.violation(mech, d, replay)

    per_q = collections.defaultdict(list)
    for t, dst, tag in qlog:
        per_q[wire_dst(dst)].append((t, tag))
    per_w = collections.defaultdict(list)
    for m in sent:
        ctx.count("datagrams")
        if ct == 0 and len(m["entries"]) != 1:
            bad("zero-timeout-message-carries-several-entries", at=m["t"], n=len(m["entries"]))
        for e in m["entries"]:
            per_w[m["dst"]].append((m["t"], e["tag"]))
    ctx.count("entries_queued", len(qlog))
    for dst in set(per_q) | set(per_w):
        q, w = per_q.get(dst, []), per_w.get(dst, [])
        # conservation: entries queued less than one timeout before the run ended may still be held
        held = 0
        while held < len(q) - len(w) and q[len(q) - 1 - held][0] > horizon - ct - 4 * RES:
            held += 1
        if held:
            q = q[:len(q) - held]
        qt, wt = [x[1] for x in q], [x[1] for x in w]
        if qt != wt:
            cq, cw = collections.Counter(qt), collections.Counter(wt)
            if cq == cw:
                bad("entries-for-one-destination-leave-out-of-queue-order", dst=dst,
                    first_difference=next(i for i, (a, b) in enumerate(zip(qt, wt)) if a != b))
            else:
                lost = list((cq - cw).elements())[:5]
                extra = list((cw - cq).elements())[:5]
                other = [d2 for d2 in per_q if d2 != dst and any(x in [y[1] for y in per_q[d2]] for x in extra)]
                if extra and other:
                    bad("entry-sent-to-a-destination-it-was-not-queued-for", dst=dst, entries=extra, queued_for=other)
                elif lost and not extra:
                    bad("queued-entry-never-transmitted", dst=dst, entries=lost)
                elif extra and not lost:
                    bad("entry-transmitted-more-than-once-or-never-queued", dst=dst, entries=extra)
                else:
                    bad("wire-entries-differ-from-queued-entries", dst=dst, lost=lost, extra=extra)
            continue
        for (tq, tag), (tw, _t) in zip(q, w):
            if tw < tq - 4 * RES or tw > tq + ct_of(tq) + 4 * RES:
                bad("entry-leaves-later-than-the-collection-timeout" if tw > tq else "entry-on-the-wire-before-it-was-queued",
                    dst=dst, tag=tag, queued=tq, sent=tw, timeout_in_force_when_queued=ct_of(tq))
                break
        ctx.count("entries_matched", len(q))
    return ok


def tagged_entry(H, n, with_opts):
    import ipaddress

    opts = ()
    if with_opts:
        opts = (H.IPv4EndpointOption(address=ipaddress.IPv4Address("10.0.10.1"), l4proto=H.L4Protocols.UDP, port=1000 + n % 50000),)
    return H.SOMEIPSDEntry(sd_type=H.SOMEIPSDEntryType.OfferService, service_id=(n >> 16) & 0xFFFF, instance_id=n & 0xFFFF,
                           major_version=1, ttl=3 if n % 5 else 0, minver_or_counter=n % 7, options_1=opts)


def direct_scenario(ctx, rng, seed, replay):
    import someip.header as H

    ct = ct0 = rng.choice((0, 0, 2.0 ** -8, 2.0 ** -8, 2.0 ** -4))
    h = Harness(random.Random(seed), max_iterations=200000)
    prot, tr = net.make_sd(h.loop, ("10.0.10.1", 30490), timings=net.timings(SEND_COLLECTION_TIMEOUT=ct, INITIAL_DELAY_MIN=0,
                                                                             INITIAL_DELAY_MAX=0, REPETITIONS_MAX=0, CYCLIC_OFFER_DELAY=0))
    ann = prot.announcer
    qlog = []
    orig = ann.queue_send

    def queue_send(entry, remote=None):
        qlog.append((h.loop.time(), remote, (entry.service_id << 16) | entry.instance_id))
        return orig(entry, remote=remote)

    ann.queue_send = queue_send
    ndst = rng.randrange(1, 5)
    dsts = DSTS[:ndst]
    if rng.random() < 0.35:
        dsts = [None] + rng.sample(DSTS[1:] + DSTS_MORE, rng.randrange(1, 5))
        if any(d in DSTS_MORE for d in dsts):
            ctx.count("scenarios_with_sibling_addresses")
    counter = [rng.randrange(1, 1000) << 8]
    now = 0.125
    close = {}  # dst -> close instant of the window opened most recently (model, for placement only)
    pattern = []
    nontrivial = False
    stop_at = None
    raised = []

    def burst(dst, n, with_opts):
        for _ in range(n):
            counter[0] += 1
            try:
                ann.queue_send(tagged_entry(H, counter[0], with_opts), remote=dst)
            except Exception as exc:  # noqa: B902
                raised.append(repr(exc))

    nsteps = rng.randrange(3, 25)
    change = None
    change_step = rng.randrange(2, nsteps) if ct > 0 and nsteps > 3 and rng.random() < 0.2 else None
    for step in range(nsteps):
        if step == change_step:
            # the application assigns another non-zero collection timeout while nothing is being collected (every window has
            # closed): from now on entries leave within the NEW timeout, also for destinations that were addressed before
            tc = now + ct + 2.0 ** -6  # whatever window was opened up to now has closed by then
            ct2 = rng.choice([x for x in (2.0 ** -9, 2.0 ** -8, 2.0 ** -6, 2.0 ** -4) if x != ct])
            change = (tc, ct2)
            h.at(tc, setattr, prot.timings, "SEND_COLLECTION_TIMEOUT", ct2)
            now, ct = tc, ct2
            close.clear()
            ctx.count("collection_timeout_reassigned_at_a_quiet_instant")
        dst = rng.choice(dsts)
        pl = rng.choice(("random", "random", "d-eps", "d:before", "d:after", "d+eps", "same", "d-res"))
        rank = BEFORE
        d = close.get(dst)
        if ct == 0 or d is None or d < now:
            if pl not in ("random", "same"):
                pl = "random"
        if pl == "random":
            t = now + rng.choice((2.0 ** -10, 2.0 ** -9, 2.0 ** -7, 2.0 ** -5, 0.25))
        elif pl == "same":
            t = now
        else:
            # d-res: less than one clock resolution ahead of the close - the loop runs the window's timer in that iteration
            t, rank = {"d-eps": (d - EPS, BEFORE), "d:before": (d, BEFORE), "d:after": (d, AFTER), "d+eps": (d + EPS, BEFORE),
                       "d-res": (d - RES / 2, BEFORE)}[pl]
            if t < now:
                t, rank, pl = now + 2.0 ** -9, BEFORE, "random"
            ctx.count({"d:before": "request_at_close_before", "d:after": "request_at_close_after",
                       "d-res": "request_within_resolution_before_close"}.get(pl, "request_close_adjacent"))
            nontrivial = True
        n = rng.choice((1, 1, 1, 2, 3, 5, 16, 17, 40))
        if n > 15:
            ctx.count("bursts_over_15")
        if n > 1 and ct > 0:
            nontrivial = True
        h.at(t, burst, dst, n, rng.random() < 0.3, rank=rank)
        # model of the window for placement: a request opens a window unless one is open (ahead of its close)
        if ct > 0:
            if d is None or t > d or (t == d and rank == AFTER):
                close[dst] = t + ct
        pattern.append((dsts.index(dst), pl, n))
        now = t
        if stop_at is None and rng.random() < 0.08:
            stop_at = now
            h.at(now, ann.stop, rank=rank)
            h.at(now, burst, rng.choice(dsts), 2, False, rank=rank)
            ctx.count("requests_during_stop")
    h.at(0.0, ann.start)
    horizon = now + 1.0
    h.run(horizon)
    problems = h.problems()
    sent = None
    try:
        sent = net.decode_sent(tr.sent)
        for m in sent:
            for e in m["entries"]:
                e["tag"] = (e["sid"] << 16) | e["iid"]
    except refwire.RefError as exc:
        problems.append(("undecodable-transmission", repr(exc)))
    qsnap = list(qlog)  # teardown cancels the offer tasks, which queue StopOffers nobody will send
    h.close()
    ctx.count("scenarios")
    ct = ct0
    if ct == 0:
        ctx.count("zero_timeout_scenarios")
    detail = dict(timeout=ct, pattern=pattern[:20], timeout_reassigned=change)
    for r in raised:
        ctx.violation("queue_send-raises", dict(exc=r, **detail), replay)
    for p in problems:
        ctx.violation("unexpected-exception-during-run", dict(problem=p, **detail), replay)
    if sent is not None:
        check_logs(ctx, qsnap, sent, ct, replay, detail, horizon, change)
    return (ct, tuple(pattern)), nontrivial


def real_scenario(ctx, rng, seed, replay):
    """entries produced by the library's own paths: offers, stop-offers, acks, find answers"""
    import someip.config as C
    import someip.sd as S

    ct = rng.choice((0, 2.0 ** -8, 2.0 ** -5))
    h = Harness(random.Random(seed), draw_mode="rand", max_iterations=200000)
    tm = net.timings(SEND_COLLECTION_TIMEOUT=ct, INITIAL_DELAY_MIN=0, INITIAL_DELAY_MAX=2.0 ** -4, REPETITIONS_MAX=2,
                     REPETITIONS_BASE_DELAY=2.0 ** -5, CYCLIC_OFFER_DELAY=0.25, REQUEST_RESPONSE_DELAY_MIN=0,
                     REQUEST_RESPONSE_DELAY_MAX=2.0 ** -6, ANNOUNCE_TTL=3)
    prot, tr = net.make_sd(h.loop, ("10.0.10.1", 30490), timings=tm)
    ann = prot.announcer
    qlog = []
    orig = ann.queue_send
    n = [0]

    def key(e):
        return (int(e.sd_type), e.service_id, e.instance_id, e.ttl, e.minver_or_counter)

    def queue_send(entry, remote=None):
        qlog.append((h.loop.time(), remote, key(entry)))
        return orig(entry, remote=remote)

    ann.queue_send = queue_send
    insts = []
    for i in range(rng.randrange(1, 3)):
        svc = C.Service(0x7001 + i, 1, 1, 0, eventgroups=frozenset({1, 2}))
        insts.append(S.ServiceInstance(svc, S.ServerServiceListener(), ann, tm))

    def setup():
        for inst in insts:
            ann.announce_service(inst)
        ann.start()

    h.at(0.0, setup)
    announced = [True] * len(insts)
    peers = DSTS[1:]
    sess = {p: net.PeerSession() for p in peers}
    t = 0.0
    for _ in range(rng.randrange(5, 40)):
        t += rng.choice((0.0, 2.0 ** -9, 2.0 ** -7, 2.0 ** -5, 2.0 ** -3))
        p = rng.choice(peers)
        r = rng.random()
        fl, sid = sess[p].next()
        if r < 0.5:
            ents = [net.subscribe(0x7001 + rng.randrange(2), 1, 1, rng.choice((1, 2, 3)), rng.choice((0, 3)), counter=rng.randrange(3),
                                  o1=[refwire.ep4("10.0.10.2", 4000)]) for _ in range(rng.choice((1, 1, 2, 5)))]
            h.at(t, prot.datagram_received, net.sd_bytes(ents, sid, reboot=fl), p, False)
        elif r < 0.85:
            mc = rng.random() < 0.5
            h.at(t, prot.datagram_received, net.sd_bytes([net.find(0x7001 + rng.randrange(2))], sid, reboot=fl), p, mc)
        elif r < 0.93:
            k = rng.randrange(len(insts))
            if announced[k]:
                announced[k] = False
                h.at(t, ann.stop_announce_service, insts[k])
        else:
            k = rng.randrange(len(insts))
            if not announced[k]:
                announced[k] = True
                h.at(t, ann.announce_service, insts[k])
    horizon = t + 1.0
    h.run(horizon)
    problems = h.problems()
    sent = None
    try:
        sent = net.decode_sent(tr.sent)
        for m in sent:
            for e in m["entries"]:
                e["tag"] = (e["type"], e["sid"], e["iid"], e["ttl"], e["val"])
    except refwire.RefError as exc:
        problems.append(("undecodable-transmission", repr(exc)))
    qsnap = list(qlog)  # teardown cancels the offer tasks, which queue StopOffers nobody will send
    h.close()
    ctx.count("scenarios")
    ctx.count("real_traffic_scenarios")
    detail = dict(timeout=ct, kind="real traffic")
    for p in problems:
        ctx.violation("unexpected-exception-during-run", dict(problem=p, **detail), replay)
    if sent is not None:
        check_logs(ctx, qsnap, sent, ct, replay, detail, horizon)
    return (ct, len(qsnap)), len(qsnap) > 3


def shards(tier, seed):
    return [dict(shard=i, seed=seed, n=400 if tier == "quick" else 30000) for i in range(16)]


def run(spec, ctx):
    base = f"C15/{spec['seed']}/{spec['shard']}"
    for i in range(spec["n"]):
        rng = random.Random(f"{base}/{i}")
        if i % 5 == 4:
            key, nt = real_scenario(ctx, rng, f"{base}/{i}", dict(base=base, index=i))
            ctx.case(("real", key, i), nt)
        else:
            key, nt = direct_scenario(ctx, rng, f"{base}/{i}", dict(base=base, index=i))
            ctx.case(("direct", key), nt, sample=dict(timeout=key[0], calls=[dict(destination=d, placement=pl, burst=n) for d, pl, n in key[1][:10]])
                     if i < 2 else None)


def replay(doc, ctx):
    rng = random.Random(f"{doc['base']}/{doc['index']}")
    if doc["index"] % 5 == 4:
        real_scenario(ctx, rng, f"{doc['base']}/{doc['index']}", doc)
    else:
        direct_scenario(ctx, rng, f"{doc['base']}/{doc['index']}", doc)
    ctx.case(("replay",), True)
