"""C17 - event notifications reach exactly the current subscribers, correctly addressed."""
from __future__ import annotations

import collections
import random

from pv import net, refwire
from pv.vloop import Harness, EPS, BEFORE, AFTER, RES

ID = "C17"
LEVEL = "exploration"
TECHNIQUE = ("runtime subscriber-set / value-history model vs decoded notification datagrams of a live SimpleService + SimpleEventgroup "
             "on a virtual-time loop with injected address-resolution latency; subscriptions through the real SD Subscribe path")
LEVEL_TEXT = ("Held on every generated script of the run: subscribe / unsubscribe of 4 endpoints (IPv4/IPv6) through real Subscribe / "
              "StopSubscribe datagrams (TTL infinite and finite), value updates, explicit notification requests for event subsets, "
              "cyclic rounds, with resolution latency 0 and >0, 1-2 eventgroups (cyclic and not). Every decoded notification must be "
              "explained as an initial notification, an explicit round or a complete cyclic round to the then-current subscribers; "
              "fields, payload (a value held between request and send) and per-destination session ids are checked on every message; "
              "subscriptions with 0 or 2 endpoints or an unknown eventgroup must be refused. Scripts are sampled")
LEVEL_NOTE = ("trusts the subscriber-set/value model in this module and pv/refwire.py; a change of the subscriber set in the instant a "
              "round starts makes that endpoint 'either' for that round; one live subscription per endpoint and eventgroup at a time")
TIEBREAK_VARIANTS = True  # thorough tier: some shards run equal-deadline timers LIFO / in seeded random order
RULE = (
    "scripts of 4-40 actions over {subscribe, unsubscribe, late/duplicate unsubscribe of an unsubscribed endpoint} x 4 endpoints x "
    "1-2 eventgroups, set value, notify_once(subset), at new "
    "instants / same iteration / around cyclic ticks, resolution latency {0, 2^-6}, cyclic interval {none, 0.5}, refusal probes "
    "(0 / 2 endpoints, unknown eventgroup). distinct = distinct (configuration, action/placement sequence); non-trivial = at least "
    "one notification was sent to a subscriber"
)
ASSUMPTIONS = ["'subscribed at that time' = at the instant the round was requested / the cyclic timer fired",
               "event ids are distinct across the eventgroups of the service, so every notification is attributable"]
FLOORS = {"quick": {"scripts": 5000, "notifications_checked": 150000, "initial_notifications": 15000, "explicit_round_notifications": 20000,
                    "cyclic_rounds": 10000, "session_ids_checked": 150000, "refusals_checked": 2000, "latency_scripts": 1500,
                    "rounds_with_no_subscriber": 1500, "unsubscribe_between_request_and_send": 30, "unsubscribe_of_unsubscribed_endpoint": 800,
                    "wrap_notifications_checked": 130000, "wrap_session_id_wraps": 2, "crowd_endpoints_checked": 5000, "companion_service_notifications_checked": 100000}}

FOREVER = 0xFFFFFF
SID, MAJ = 0xA001, 4
SID2 = 0xA002
ENDPOINTS = [("v4", "10.0.17.11", 6001), ("v4", "10.0.17.11", 6002), ("v6", "2001:db8::17:1", 6003), ("v6", "2001:db8::17:1", 6004)]  # same hosts, other ports
SUBSCRIBERS = [("10.0.17.11", 30490), ("10.0.17.12", 30490)]
GROUPS = {1: (0x11, 0x12, 0x13), 2: (0x21, 0x22)}


def ep_ref(i):
    k, host, port = ENDPOINTS[i]
    return refwire.ep4(host, port) if k == "v4" else refwire.ep6(host, port)


def ep_addr(i):
    k, host, port = ENDPOINTS[i]
    return (host, port) if k == "v4" else (host, port, 0, 0)


def build(rng):
    ngroups = rng.choice((1, 1, 2))
    interval = {g: rng.choice((None, 0.5, 0.5)) for g in range(1, ngroups + 1)}
    lat = rng.choice((0.0, 0.0, 2.0 ** -6))
    script = []
    now = 0.25
    subbed = {g: {} for g in interval}  # ep -> (expires, via)
    pat = []
    empties = 0
    vals = 0
    # in a quarter of the scripts the third event of group 1 has no value at first; it is published later by assigning a new
    # table to eventgroup.values ("set values to the current value") - from then on it belongs to every round
    late_ev = GROUPS[1][2] if rng.random() < 0.25 else None
    present = {ev for g in interval for ev in GROUPS[g]} - {late_ev}
    for _ in range(rng.randrange(4, 41)):
        pl = rng.choice(("new", "new", "new", "same", "same", "grid", "grid:after"))
        rank = BEFORE
        if pl == "new":
            t = now + rng.choice((2.0 ** -7, 2.0 ** -5, 0.125, 0.25, 0.3125, 0.5, 1.0))
        elif pl == "same":
            t = now
            rank = script[-1][1] if script else BEFORE
        else:
            # cyclic rounds live on a 0.5 s grid relative to a subscribe instant: aim at the next multiple from some subscribe time
            base = rng.choice([s[0] for s in script if s[2]["kind"] == "sub"] or [now])
            k = int((now - base) / 0.5) + 1
            t = base + k * 0.5 + (lat if rng.random() < 0.3 else 0.0)
            if pl == "grid:after":
                rank = AFTER
            if t < now or (t == now and script and script[-1][1] == AFTER and rank == BEFORE):
                t, rank = now + 0.125, BEFORE
        # finite subscriptions run out; keep clear of acting exactly at an expiry instant
        while any(abs(exp - t) <= 4 * EPS for d in subbed.values() for exp, _v in d.values()):
            t += 2.0 ** -8
        for d in subbed.values():
            for ep in [ep for ep, (exp, _v) in d.items() if exp <= t]:
                del d[ep]
        g = rng.choice(list(interval))
        r = rng.random()
        free = [i for i in range(len(ENDPOINTS)) if i not in subbed[g]]
        if (r < 0.3 and not free) or (0.3 <= r < 0.45 and not subbed[g]):
            r = 0.5  # nothing to (un)subscribe: update a value instead (time has already been consumed)
        if r < 0.3:
            i = rng.choice(free)
            ttl = rng.choice((FOREVER, FOREVER, FOREVER, 2))
            via = rng.choice(SUBSCRIBERS)
            a = dict(kind="sub", g=g, ep=i, ttl=ttl, via=via)
            subbed[g][i] = (float("inf") if ttl == FOREVER else t + ttl, via)
            if ttl != FOREVER:
                a["expires"] = t + ttl
        elif r < 0.45:
            i = rng.choice(sorted(subbed[g]))
            a = dict(kind="unsub", g=g, ep=i, via=subbed[g][i][1])
            del subbed[g][i]
        elif r < 0.65:
            vals += 1
            a = dict(kind="set", g=g, ev=rng.choice(GROUPS[g]), val=vals.to_bytes(2, "big") + bytes(rng.randrange(0, 6)))
            if rng.random() < 0.12:
                a["val"] = b""  # an event without payload is a legal current value
                empties += 1
            a["reassign"] = rng.random() < 0.3  # a new table assigned to .values instead of an update in place
            if a["ev"] not in present:
                # the first value of the late event: a new table, at an instant of its own
                a["reassign"] = a["introduce"] = True
                t, rank = t + 2.0 ** -9, BEFORE  # only ever later than the instant the expiries were settled for
                while any(abs(exp - t) <= 4 * EPS for d in subbed.values() for exp, _v in d.values()):
                    t += 2.0 ** -8
                for d in subbed.values():
                    for ep in [ep for ep, (exp, _v) in d.items() if exp <= t]:
                        del d[ep]
                present.add(a["ev"])
        elif r < 0.93:
            evs = [ev for ev in GROUPS[g] if ev in present]
            rng.shuffle(evs)
            a = dict(kind="notify", g=g, evs=evs[: rng.randrange(1, len(evs) + 1)])
            if rng.random() < 0.12:
                # the list an application hands to notify_once may name an event more than once (it appended every change):
                # one notification per listed occurrence, ids in list order
                a["evs"] = a["evs"] + [rng.choice(a["evs"])]
        elif r < 0.97 and free:
            # a late or duplicate unsubscribe for an endpoint that is not subscribed (delivered through the listener interface)
            a = dict(kind="unsub-unknown", g=g, ep=rng.choice(free), via=rng.choice(SUBSCRIBERS))
        else:
            a = dict(kind="refuse", g=g, how=rng.choice(("no-endpoint", "two-endpoints", "unknown-eventgroup")), via=rng.choice(SUBSCRIBERS))
        script.append((t, rank, a))
        pat.append((a["kind"], a.get("g"), a.get("ep"), tuple(a.get("evs", ())), pl))
        now = t
    return dict(interval=interval, lat=lat, script=script, pat=tuple(pat), horizon=now + 2.5, empties=empties, late_ev=late_ev)


_RIGS = [0, 0]


class Run:
    def __init__(self, sc, seed):
        import someip.service as SV

        self.sc = sc
        self.h = Harness(random.Random(seed), max_iterations=400000)
        self.h.loop.gai_latency = sc["lat"]
        tm = net.timings(INITIAL_DELAY_MIN=0, INITIAL_DELAY_MAX=0, REPETITIONS_MAX=0, CYCLIC_OFFER_DELAY=0, SEND_COLLECTION_TIMEOUT=0)
        self.prot, self.sdtr = net.make_sd(self.h.loop, ("10.0.17.1", 30490), timings=tm)
        self.SV = SV
        self.svc = None
        self.groups = {}
        self.sess = {s: net.PeerSession() for s in SUBSCRIBERS}
        self.refusals = []  # (t, how, outcome)
        self.raised = []
        self.counter = 0
        self.unknown_unsubs = 0
        self.staged = False
        self.own_tasks = []

    def setup(self):
        SV = self.SV

        class Svc(SV.SimpleService):
            service_id = SID
            version_major = MAJ
            version_minor = 1

        svc = Svc(instance_id=1)
        svc.transport = net.RecTransport(self.h.loop, ("10.0.17.1", 30509))
        self.prot.announcer.start()
        _RIGS[0] += 1
        if _RIGS[0] % 2 == 0:
            # the service was announced before it had its eventgroups, and withdrawn again (an application that brings its
            # service up in stages): what is announced afterwards is the service as it is then
            svc.start_announce(self.prot.announcer)
            svc.stop_announce(self.prot.announcer)
            self.staged = True
        for g, interval in self.sc["interval"].items():
            _RIGS[1] += 1
            if interval and _RIGS[1] % 3 == 0:
                # the application runs the cyclic rounds itself: an eventgroup built without an interval and the documented
                # public coroutine started as a task of its own
                eg = SV.SimpleEventgroup(svc, id=g)
                self.own_tasks.append(self.h.loop.create_task(eg.cyclic_notify(interval)))
            else:
                eg = SV.SimpleEventgroup(svc, id=g, interval=interval)
            for ev in GROUPS[g]:
                if ev != self.sc.get("late_ev"):
                    eg.values[ev] = b"init" + bytes([ev])
            svc.register_eventgroup(eg)
            self.groups[g] = eg
        self.svc = svc
        svc.start_announce(self.prot.announcer)

        # a second service of the same application, announced on the same discovery stack through the same helper, with the same
        # subscribers: each service endpoint counts its notifications per destination on its own
        class Svc2(SV.SimpleService):
            service_id = SID2
            version_major = MAJ
            version_minor = 1

        svc2 = Svc2(instance_id=1)
        svc2.transport = net.RecTransport(self.h.loop, ("10.0.17.1", 30510))
        eg9 = SV.SimpleEventgroup(svc2, id=9)
        eg9.values[0x51] = b"companion"
        svc2.register_eventgroup(eg9)
        svc2.start_announce(self.prot.announcer)
        self.svc2, self.eg9 = svc2, eg9

    def subscribe_datagram(self, g, eps, ttl, via, counter=0, egid=None, service=None):
        fl, sid = self.sess[via].next()
        # the endpoint option(s) sit in the first or in the second option run of the entry
        refs = [ep_ref(i) for i in eps]
        self.n_subs = getattr(self, "n_subs", 0) + 1
        o1, o2 = (refs, []) if self.n_subs % 3 else (refs[:-1], refs[-1:])
        ent = net.subscribe(service or SID, 1, MAJ, egid if egid is not None else g, ttl, counter=counter, o1=o1, o2=o2)
        self.prot.datagram_received(net.sd_bytes([ent], sid, reboot=fl), via, False)

    def do(self, a):
        import someip.sd as S

        try:
            k = a["kind"]
            if k == "sub":
                self.subscribe_datagram(a["g"], [a["ep"]], a["ttl"], a["via"])
            elif k == "unsub":
                self.subscribe_datagram(a["g"], [a["ep"]], 0, a["via"])
            elif k == "unsub-unknown":
                import ipaddress
                import someip.header as H

                kind, host, port = ENDPOINTS[a["ep"]]
                cls, ip = (H.IPv4EndpointOption, ipaddress.IPv4Address) if kind == "v4" else (H.IPv6EndpointOption, ipaddress.IPv6Address)
                sub = S.EventgroupSubscription(service_id=SID, instance_id=1, major_version=MAJ, id=a["g"], counter=0, ttl=0,
                                               endpoints=frozenset({cls(address=ip(host), l4proto=H.L4Protocols.UDP, port=port)}))
                self.unknown_unsubs += 1
                self.svc.client_unsubscribed(sub, a["via"])
            elif k == "set":
                eg = self.groups[a["g"]]
                if a.get("reassign"):
                    eg.values = {**eg.values, a["ev"]: a["val"]} if a.get("introduce") or len(eg.values) % 2 else \
                        {a["ev"]: a["val"], **{k2: v2 for k2, v2 in eg.values.items() if k2 != a["ev"]}}
                else:
                    eg.values[a["ev"]] = a["val"]
            elif k == "notify":
                self.groups[a["g"]].notify_once(list(a["evs"]))
            elif k == "refuse":
                before = len(self.sdtr.sent)
                if a["how"] == "no-endpoint":
                    self.subscribe_datagram(a["g"], [], FOREVER, a["via"], counter=9)
                elif a["how"] == "two-endpoints":
                    self.subscribe_datagram(a["g"], [0, 2], FOREVER, a["via"], counter=9)
                else:
                    # unknown eventgroup reaches the service only through the listener interface itself
                    sub = S.EventgroupSubscription(service_id=SID, instance_id=1, major_version=MAJ, id=0x77, counter=0, ttl=3,
                                                   endpoints=frozenset())
                    try:
                        self.svc.client_subscribed(sub, a["via"])
                        self.refusals.append((self.h.loop.time(), a["how"], "accepted"))
                    except S.NakSubscription:
                        self.refusals.append((self.h.loop.time(), a["how"], "refused"))
                    return
                acks = [e for m in net.decode_sent(self.sdtr.sent[before:]) for e in m["entries"] if e["type"] == 7]
                ok = len(acks) == 1 and acks[0]["ttl"] == 0
                self.refusals.append((self.h.loop.time(), a["how"], "refused" if ok else f"acks={[(x['ttl']) for x in acks]}"))
        except Exception as exc:
            self.raised.append((a, repr(exc)))

    def execute(self):
        self._via = {}
        for t, rank, a in self.sc["script"]:
            if a["kind"] == "sub":
                self._via[(a["g"], a["ep"])] = a["via"]
        self.h.at(0.0, self.setup)
        for i in range(len(ENDPOINTS)):
            self.h.at(0.0625 + i * 2.0 ** -8, self.subscribe_datagram, 9, [i], FOREVER, SUBSCRIBERS[0], 0, 9, SID2)
        t = 0.3
        while t < self.sc["horizon"] - 0.5:
            self.h.at(t, lambda: self.eg9.notify_once([0x51]))
            t += 0.375 + 2.0 ** -9
        for t, rank, a in self.sc["script"]:
            self.h.at(t, self.do, a, rank=rank)
        self.h.run(self.sc["horizon"])
        self.sent2 = list(self.svc2.transport.sent) if getattr(self, "svc2", None) else []
        problems = self.h.problems(allowed_logged=("ParseError", "IncompleteReadError", "NakSubscription", "AssertionError"))
        sent = list(self.svc.transport.sent) if self.svc else []
        self.h.close()
        return sent, problems


def judge(ctx, sc, seed, replay):
    run = Run(sc, seed)
    sent, problems = run.execute()
    L = sc["lat"]
    ctx.count("scripts")
    if run.staged:
        ctx.count("services_announced_once_before_their_eventgroups_were_registered")
    ctx.count("eventgroups_whose_cyclic_rounds_the_application_started_itself", len(run.own_tasks))
    ctx.count("unsubscribe_of_unsubscribed_endpoint", run.unknown_unsubs)
    if L:
        ctx.count("latency_scripts")
    ctx.count("empty_values_set", sc.get("empties", 0))
    if sc.get("late_ev") is not None and any(a.get("introduce") for _t, _r, a in sc["script"]):
        ctx.count("scripts_with_an_event_published_later_by_table_assignment")
    brief = dict(latency=L, intervals=sc["interval"], script=[(t, r, a) for t, r, a in sc["script"]][:18])
    nviol = [0]

    def bad(mech, **detail):
        nviol[0] += 1
        if nviol[0] <= 3:
            detail.update(brief)
            ctx.violation(mech, detail, replay)

    for a, e in run.raised:
        bad("scripted-call-raises", action=a, exc=e)
    for p in problems:
        bad("unexpected-exception-during-run", problem=p)
    # the companion service: per destination its ids count 1, 2, 3, ... whatever the service under test sends in between
    per2 = collections.defaultdict(list)
    for t2, _it, data, dst in getattr(run, "sent2", []):
        msgs2, broken2 = refwire.split_datagram(data)
        per2[dst].extend(m2["sess"] for m2 in msgs2)
    for dst, ids2 in per2.items():
        ctx.count("companion_service_notifications_checked", len(ids2))
        if ids2 != list(range(1, len(ids2) + 1)):
            bad("notification-session-id-not-counting-per-destination", dst=dst, service="companion (second service on the same stack)",
                got=ids2[:12])
    for t, how, outcome in run.refusals:
        ctx.count("refusals_checked")
        if outcome != "refused":
            bad("subscription-with-wrong-endpoint-count-or-unknown-eventgroup-not-refused", how=how, outcome=outcome, at=t)
    # ---- model: subscriber sets and value histories ------------------------------------------
    timeline = []  # (t, seq, kind, payload) including expiries
    for n, (t, rank, a) in enumerate(sc["script"]):
        timeline.append((t, n, a))
        if a["kind"] == "sub" and a.get("expires") is not None:
            timeline.append((a["expires"], 10 ** 6 + n, dict(kind="expire", g=a["g"], ep=a["ep"], sub_n=n)))
    timeline.sort(key=lambda x: (x[0], x[1]))
    S = {g: set() for g in sc["interval"]}
    sub_since = {}
    late_ev = sc.get("late_ev")
    hist = {ev: ([] if ev == late_ev else [(0.0, b"init" + bytes([ev]))]) for g in sc["interval"] for ev in GROUPS[g]}
    t_intro = next((t for t, _r, a in sc["script"] if a.get("introduce")), None)  # instant the late event gets its first value

    def has_value(ev, t):
        """True / False / None (introduced in this very instant)"""
        if ev != late_ev:
            return True
        if t_intro is None or t < t_intro - L - 2 * RES:
            return False
        return True if t > t_intro + L + 2 * RES else None
    set_changes = {g: [(0.0, frozenset())] for g in sc["interval"]}  # (t, set after change)
    expected = collections.defaultdict(collections.Counter)  # (addr, send time) -> Counter(event)
    optional = collections.defaultdict(collections.Counter)
    kinds = collections.Counter()
    for t, n, a in timeline:
        k = a["kind"]
        g = a.get("g")
        if k == "sub":
            S[g].add(a["ep"])
            sub_since[(g, a["ep"])] = n
            set_changes[g].append((t, frozenset(S[g])))
            for ev in GROUPS[g]:
                hv = has_value(ev, t)
                if hv:
                    expected[(ep_addr(a["ep"]), t + L)][ev] += 1
                    kinds["initial_notifications"] += 1
                elif hv is None:  # published in this very instant: the order of the two calls decides
                    optional[(ep_addr(a["ep"]), t + L)][ev] += 1
        elif k in ("unsub", "expire"):
            if k == "expire" and sub_since.get((g, a["ep"])) != a["sub_n"]:
                continue  # re-subscribed meanwhile
            if a["ep"] in S[g]:
                S[g].discard(a["ep"])
                set_changes[g].append((t, frozenset(S[g])))
        elif k == "set":
            hist[a["ev"]].append((t, a["val"]))
        elif k == "notify":
            if not S[g]:
                kinds["rounds_with_no_subscriber"] += 1
                a["_targets"] = ("none", frozenset(), frozenset())
            else:
                a["_targets"] = ("some", None, None)
            a["_t"] = t
    # explicit rounds: destinations between intersection and union of the sets held during the request's instant
    def sets_during(g, t0, t1):
        ch = set_changes[g]
        before = [s for (tt, s) in ch if tt < t0 - RES]
        cur = before[-1] if before else frozenset()
        inside = [s for (tt, s) in ch if t0 - RES <= tt <= t1 + RES]
        allsets = [cur] + inside
        inter = frozenset.intersection(*allsets)
        union = frozenset.union(*allsets)
        return inter, union

    explicit = []  # (t, g, evs, must set, may set)
    for t, rank, a in sc["script"]:
        if a["kind"] == "notify":
            inter, union = sets_during(a["g"], t, t)
            if a["_targets"][0] == "none":
                # no subscriber at the moment of the call: the request is dropped; a subscriber arriving later in the
                # same instant does not revive it, but be lenient: nothing is required
                explicit.append((t, a["g"], a["evs"], frozenset(), frozenset()))
            else:
                explicit.append((t, a["g"], a["evs"], inter, union))
    # ---- observed ---------------------------------------------------------------------------------
    observed = collections.defaultdict(list)  # (addr, t) -> [(event, payload)]
    sess_next = {}
    ev_group = {ev: g for g in GROUPS for ev in GROUPS[g]}
    for t, _it, data, dst in sent:
        msgs, broken = refwire.split_datagram(data)
        if broken:
            bad("notification-datagram-malformed", dst=dst, data=data[:48])
            continue
        for m in msgs:
            ctx.count("notifications_checked")
            ev = m["mid"] & 0x7FFF
            if (m["sid"], m["mid"] & 0x8000, m["cid"], m["iv"], m["mt"], m["rc"]) != (SID, 0x8000, 0, MAJ, 2, 0) or ev not in ev_group:
                bad("notification-header-fields-wrong", dst=dst, message={k: v for k, v in m.items() if k != "payload"})
                continue
            exp = sess_next.get(dst, 1)
            ctx.count("session_ids_checked")
            if m["sess"] != exp:
                bad("notification-session-id-not-counting-per-destination", dst=dst, expected=exp, got=m["sess"])
                sess_next[dst] = (m["sess"] % 0xFFFF) + 1
            else:
                sess_next[dst] = 1 if exp >= 0xFFFF else exp + 1
            allowed = [v for (tt, v) in hist[ev] if tt <= t + RES]
            last_before = [v for (tt, v) in hist[ev] if tt < t - L - RES]
            window = ([last_before[-1]] if last_before else []) + [v for (tt, v) in hist[ev] if t - L - RES <= tt <= t + RES]
            if m["payload"] not in window:
                bad("notification-payload-is-not-a-value-held-between-request-and-send", dst=dst, event=ev, payload=m["payload"],
                    allowed=window[-3:], at=t)
            observed[(dst, t)].append(ev)
    addr_to_ep = {ep_addr(i): i for i in range(len(ENDPOINTS))}
    # ---- explain every observed notification -----------------------------------------------------------
    # 1. initial notifications (exact)
    remaining = {k: collections.Counter(v) for k, v in observed.items()}
    for key, cnt in expected.items():
        have = remaining.get(key, collections.Counter())
        miss = cnt - have
        if miss:
            bad("initial-notification-missing", dst=key[0], at=key[1], events=sorted(miss.elements()))
        remaining[key] = have - cnt
    for key, cnt in optional.items():
        if key in remaining:
            remaining[key] = remaining[key] - cnt
    for kname, v in kinds.items():
        ctx.count(kname, v)
    # 2. explicit rounds
    for t, g, evs, must, may in explicit:
        for i in range(len(ENDPOINTS)):
            key = (ep_addr(i), t + L)
            have = remaining.get(key, collections.Counter())
            need = collections.Counter(evs)
            got_all = not (need - have)
            if i in must:
                if not got_all:
                    bad("explicit-round-misses-a-subscribed-endpoint", endpoint=i, at=t, events=evs, got=sorted(have.elements()))
                else:
                    remaining[key] = have - need
                    ctx.count("explicit_round_notifications", len(evs))
            elif i in may and got_all:
                remaining[key] = have - need
    # 3. the rest must be complete cyclic rounds to the then-current subscribers
    by_time = collections.defaultdict(dict)
    for (dst, t), cnt in remaining.items():
        if sum(cnt.values()):
            by_time[t][dst] = cnt
    cyc_rounds = {g: [] for g in sc["interval"]}
    for t, per in sorted(by_time.items()):
        for g in sc["interval"]:
            fulls = [collections.Counter(ev for ev in GROUPS[g] if has_value(ev, t - L) is not False),
                     collections.Counter(ev for ev in GROUPS[g] if has_value(ev, t - L))]
            dsts = set()
            for dst, cnt in per.items():
                part = collections.Counter({e: c for e, c in cnt.items() if ev_group[e] == g})
                if not part:
                    continue
                i = addr_to_ep.get(dst)
                if sc["interval"][g] is None:
                    bad("notification-nobody-asked-for", dst=dst, at=t, events=sorted(part.elements()),
                        why="eventgroup is not cyclic and no initial/explicit notification is due")
                    continue
                if part not in fulls or i is None:
                    bad("notification-nobody-asked-for", dst=dst, at=t, events=sorted(part.elements()),
                        why="not a complete cyclic round (one notification per event)")
                    continue
                dsts.add(i)
            if dsts:
                inter, union = sets_during(g, t - L, t - L)
                ctx.count("cyclic_rounds")
                cyc_rounds[g].append(t - L)
                if not (inter <= dsts <= union):
                    if dsts - union:
                        bad("cyclic-round-reaches-an-endpoint-that-is-not-subscribed", at=t, endpoints=sorted(dsts - union))
                    else:
                        bad("cyclic-round-misses-a-subscribed-endpoint", at=t, endpoints=sorted(inter - dsts))
                if L and any(tt for (tt, s) in set_changes[g] if t - L < tt < t):
                    ctx.count("unsubscribe_between_request_and_send")
    # weak liveness of cyclic rounds: continuously subscribed for 2 intervals => at least one cyclic round in that span
    for g, interval in sc["interval"].items():
        if not interval:
            continue
        ch = set_changes[g] + [(sc["horizon"], frozenset())]
        start = None
        for (tt, s) in ch:
            if s and start is None:
                start = tt
            elif not s and start is not None:
                if tt - start > 2 * interval + 2 * L + 2.0 ** -4 and not any(start <= r <= tt for r in cyc_rounds[g]):
                    bad("no-cyclic-round-while-continuously-subscribed", group=g, since=start, until=tt)
                start = None
    return bool(sent)


def shards(tier, seed):
    out = [dict(shard=i, seed=seed, n=400 if tier == "quick" else 20000) for i in range(16)]
    # "long enough to wrap the per-destination session id": 65535 = 3*5*17*257, so with 4 or 7 events per round the id
    # 0xFFFF is not the last one of its datagram
    out.append(dict(shard=50, seed=seed, mode="wrap", events=4, rounds=65535 // 4 + 30))
    out.append(dict(shard=52, seed=seed, mode="wrap", events=3, rounds=12, crowd=1300))
    out.append(dict(shard=53, seed=seed, mode="wrap", events=2, rounds=8, crowd=4500 if tier == "quick" else 70000))
    if tier != "quick":
        out.append(dict(shard=51, seed=seed, mode="wrap", events=7, rounds=2 * 65535 // 7 + 30))
    return out


def wrap_walk(spec, ctx):
    """explicit rounds for two subscribers (IPv4 / IPv6) across the wrap of their session ids: every round complete,
    ids 1..0xFFFF, 1, ... without 0, fields and payload right on every message"""
    import ipaddress
    import someip.header as H
    import someip.service as SV

    h = Harness(random.Random(spec["seed"]), max_iterations=40 * spec["rounds"] + 200000)
    nev = spec["events"]

    class Svc(SV.SimpleService):
        service_id = SID
        version_major = MAJ
        version_minor = 1

    res = {}
    eps = [H.IPv4EndpointOption(address=ipaddress.IPv4Address("10.0.17.21"), l4proto=H.L4Protocols.UDP, port=6101),
           H.IPv6EndpointOption(address=ipaddress.IPv6Address("2001:db8::17:21"), l4proto=H.L4Protocols.UDP, port=6102)]

    def setup():
        svc = Svc(instance_id=1)
        svc.transport = net.RecTransport(h.loop, ("10.0.17.1", 30509))
        eg = SV.SimpleEventgroup(svc, id=1)
        svc.register_eventgroup(eg)
        for i in range(nev):
            # the second event is named by its full 16-bit wire id (0x8000 | id): the flag is OR-ed in, so both spellings mean
            # the same notification
            eg.values[(0x31 + i) | (0x8000 if i == 1 else 0)] = bytes([i, i])
        eg.subscribe(eps[0])
        # the second long-term subscriber comes in through the service's listener interface, its endpoint built with the plain
        # protocol number (the option class takes `Union[L4Protocols, int]`) instead of the enum member
        import someip.sd as S
        ep6 = H.IPv6EndpointOption(address=ipaddress.IPv6Address("2001:db8::17:21"), l4proto=17, port=6102)
        try:
            svc.client_subscribed(S.EventgroupSubscription(service_id=SID, instance_id=1, major_version=MAJ, id=1, counter=0, ttl=3,
                                                           endpoints=frozenset({ep6})), ("10.0.17.12", 30490))
        except S.NakSubscription as exc:
            res["refused"] = repr(exc)
        res.update(svc=svc, eg=eg)

    # with "crowd": after three rounds very many other endpoints subscribe, get their initial notifications and leave again;
    # the two long-term subscribers' counters go on as if nothing had happened
    crowd = spec.get("crowd", 0)
    crowd_eps = [H.IPv4EndpointOption(address=ipaddress.IPv4Address(f"10.{17 + (i >> 16)}.{i >> 8 & 255}.{i & 255}"), l4proto=H.L4Protocols.UDP, port=6200)
                 if i % 4 else H.IPv6EndpointOption(address=ipaddress.IPv6Address(f"2001:db8:17::{(i + 1) >> 16:x}:{(i + 1) & 0xFFFF:x}"), l4proto=H.L4Protocols.UDP, port=6200)
                 for i in range(crowd)]
    h.at(0.0, setup)
    t = 0.125
    for r in range(spec["rounds"]):
        t += 2.0 ** -10
        if crowd and r == 3:
            h.at(t, lambda: [res["eg"].subscribe(ep) for ep in crowd_eps])
            t += 2.0 ** -10
            h.at(t, lambda: [res["eg"].unsubscribe(ep) for ep in crowd_eps])
            t += 2.0 ** -10
        h.at(t, lambda: res["eg"].notify_once(list(res["eg"].values.keys())))
    h.run(t + 1.0)
    longterm = {("10.0.17.21", 6101), ("2001:db8::17:21", 6102, 0, 0)}
    if res.get("refused"):
        ctx.violation("subscription-naming-exactly-one-endpoint-refused", dict(endpoint="2001:db8::17:21 port 6102, l4proto given as the int 17",
                                                                               exc=res["refused"]), dict(kind="wrap", spec=spec))
    per = collections.defaultdict(list)
    for tt, _it, data, dst in res["svc"].transport.sent:
        msgs, broken = refwire.split_datagram(data)
        if broken:
            ctx.violation("notification-datagram-malformed", dict(dst=dst, data=data[:48]), dict(kind="wrap", spec=spec))
            continue
        per[dst].extend((tt, m) for m in msgs)
    want_n = nev * (spec["rounds"] + 1)
    for dst, seq in per.items():
        exp = 1
        for k, (tt, m) in enumerate(seq):
            ctx.count("wrap_notifications_checked")
            ev = m["mid"] & 0x7FFF
            if (m["sid"], m["mid"] & 0x8000, m["iv"], m["mt"], m["rc"]) != (SID, 0x8000, MAJ, 2, 0) or not 0x31 <= ev < 0x31 + nev \
                    or m["payload"] != bytes([ev - 0x31, ev - 0x31]):
                ctx.violation("notification-header-fields-wrong", dict(dst=dst, index=k, message={x: y for x, y in m.items() if x != "payload"}),
                              dict(kind="wrap", spec=spec))
                break
            if m["sess"] != exp:
                ctx.violation("notification-session-id-not-counting-per-destination", dict(dst=dst, index=k, expected=exp, got=m["sess"]),
                              dict(kind="wrap", spec=spec))
                break
            if exp == 0xFFFF:
                ctx.count("wrap_session_id_wraps")
            exp = 1 if exp >= 0xFFFF else exp + 1
        got = collections.Counter(m["mid"] & 0x7FFF for _tt, m in seq)
        if crowd and tuple(dst) not in longterm:
            ctx.count("crowd_endpoints_checked")
            if len(seq) != nev or any(got[0x31 + i] != 1 for i in range(nev)):
                ctx.violation("initial-notification-missing", dict(dst=dst, notifications=len(seq), expected=nev, crowd=crowd),
                              dict(kind="wrap", spec=spec))
            continue
        if len(seq) != want_n or any(got[0x31 + i] != spec["rounds"] + 1 for i in range(nev)):
            ctx.violation("explicit-round-misses-a-subscribed-endpoint", dict(dst=dst, notifications=len(seq), expected=want_n,
                                                                             per_event=dict(got)), dict(kind="wrap", spec=spec))
    if len(per) != 2 + crowd:
        ctx.violation("explicit-round-misses-a-subscribed-endpoint", dict(destinations=list(per)), dict(kind="wrap", spec=spec))
    for p in h.problems():
        ctx.violation("unexpected-exception-during-run", dict(problem=p), dict(kind="wrap", spec=spec))
    h.close()
    ctx.case(("wrap", nev, crowd), True)


def run(spec, ctx):
    if spec.get("mode") == "wrap":
        return wrap_walk(spec, ctx)
    base = f"C17/{spec['seed']}/{spec['shard']}"
    for i in range(spec["n"]):
        rng = random.Random(f"{base}/{i}")
        sc = build(rng)
        nt = judge(ctx, sc, "s", dict(base=base, index=i))
        ctx.case((sc["lat"], tuple(sorted(sc["interval"].items())), sc["pat"]), nt,
                 sample=dict(latency=sc["lat"], intervals=sc["interval"], actions=[dict(t=t, rank=r, **a) for t, r, a in sc["script"][:8]])
                 if i < 2 else None)


def replay(doc, ctx):
    if doc.get("kind") == "wrap":
        return wrap_walk(doc["spec"], ctx)
    rng = random.Random(f"{doc['base']}/{doc['index']}")
    judge(ctx, build(rng), "s", doc)
    ctx.case(("replay",), True)
