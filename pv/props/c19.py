"""C19 - service and eventgroup matching obeys the wildcard laws."""
from __future__ import annotations

import itertools
import random

ID = "C19"
LEVEL = "exploration"
EXHAUSTIVE = True
TECHNIQUE = "runtime model-agreement: matching functions vs independent reference matcher + algebraic laws, exhaustive on the 3-valued domain"
LEVEL_TEXT = ("All pairs over {two concrete values, wildcard} per field (and over {value, wildcard-neighbour, wildcard}) "
              "are enumerated completely against an independent matcher and the stated laws; random full-range pairs on "
              "top. The functions only compare fields for equality, so the small domain is representative - but that "
              "representativeness is an argument about the code, not something the run proves: exploration level")
LEVEL_NOTE = "trusts the 20-line reference matcher in this module (written from the property statement)"
RULE = (
    "exhaustive product over service id in 2 values and instance/major/minor in {v1, v2, wildcard} (and a second "
    "domain {v1, wildcard-1, wildcard}) for both sides of every matching function, eventgroup sets subset of {1,2}, "
    "then seeded random full-range pairs. distinct = distinct (function, left description, right description); "
    "non-trivial = at least one side carries a wildcard or the two sides differ in some field"
)
ASSUMPTIONS = ["reference matcher written from the statement of C19"]
FLOORS = {"quick": {"model_agreement_checks": 30000, "law_symmetry": 2000, "law_monotonic": 5000,
                    "law_duality": 2000, "law_subscribe": 2000, "law_offer_roundtrip": 50, "law_for_service": 2000,
                    "exhaustive_domains_completed": 3,
                    "offer_entries_matched_in_decoder_form": 5000, "descriptions_of_a_subclass_with_preset_ids": 5000,
                    "offer_roundtrips_with_the_transport_protocol_as_a_plain_number": 2000}}

W_I, W_M, W_N = 0xFFFF, 0xFF, 0xFFFFFFFF


def f_eq(a, b, wa, wb, w):
    return (wa and a == w) or (wb and b == w) or a == b


def ref(kind, l, r):
    """l, r = (sid, iid, maj, minor); kind decides which side may carry a wildcard"""
    wl, wr = {"offer": (True, False), "find": (False, True), "subscribe": (True, False),
              "service": (True, True)}[kind]
    if l[0] != r[0]:
        return False
    if not f_eq(l[1], r[1], wl, wr, W_I):
        return False
    if not f_eq(l[2], r[2], wl, wr, W_M):
        return False
    if kind != "subscribe" and not f_eq(l[3], r[3], wl, wr, W_N):
        return False
    return True


def shards(tier, seed):
    n = 20000 if tier == "quick" else 8000000
    k = 4 if tier == "quick" else 16
    out = [dict(shard=0, seed=seed, mode="exhaustive", dom=0), dict(shard=1, seed=seed, mode="exhaustive", dom=1),
           dict(shard=2, seed=seed, mode="exhaustive", dom=2)]
    out += [dict(shard=10 + i, seed=seed, mode="random", n=n // k) for i in range(k)]
    return out


class Checker:
    def __init__(self, ctx):
        import someip.config as C
        import someip.header as H

        self.C, self.H, self.ctx = C, H, ctx
        self.opts = (H.IPv4EndpointOption(address=__import__("ipaddress").IPv4Address("10.1.2.3"),
                                          l4proto=H.L4Protocols.UDP, port=3000),
                     H.SOMEIPSDLoadBalancingOption(priority=1, weight=2))
        self.tcp_ep = H.IPv4EndpointOption(address=__import__("ipaddress").IPv4Address("10.1.2.4"), l4proto=H.L4Protocols.TCP, port=3001)

    def typed(self):
        if not hasattr(self, "_typed"):
            import dataclasses

            @dataclasses.dataclass(frozen=True)
            class ClimateService(self.C.Service):
                service_id: int = 0x1111
                instance_id: int = 1
                major_version: int = 2
                minor_version: int = 7

            self._typed = ClimateService
        return self._typed

    def svc(self, t, egs=frozenset()):
        return self.C.Service(t[0], t[1], t[2], t[3], eventgroups=frozenset(egs))

    def bad(self, mech, **detail):
        self.ctx.violation(mech, detail, dict(detail))

    def pair(self, l, r, egs, egid):
        """all checks for one ordered pair of descriptions"""
        C, H, ctx = self.C, self.H, self.ctx
        # the TTL of an entry (0 = stop, 1.., 0xFFFFFF = forever) and the counter of a Subscribe are no part of any match
        self.n = getattr(self, "n", 0) + 1
        # neither are the eventgroups and options the OTHER description happens to carry (a complete server-side description
        # used as a client-side filter or handed to for_service): the right side rotates through bare / this eventgroup /
        # other eventgroups / options
        how = self.n % 5
        L = self.svc(l, egs)
        if how in (1, 4):
            # the matching side may itself be a complete description (endpoint options of the service); options play no part
            L = C.Service(l[0], l[1], l[2], l[3], eventgroups=frozenset(egs), options_1=self.opts[:1])
        R = C.Service(r[0], r[1], r[2], r[3],
                      eventgroups=(frozenset(), frozenset({egid}), frozenset({egid + 1, 9}), frozenset(egs), frozenset({egid, 9}))[how],
                      options_1=self.opts[:1] if how in (2, 3) else (), options_2=self.opts[1:] if how in (3, 4) else ())
        ctx.count("pairs_whose_right_side_carries_eventgroups_or_options" if how else "pairs_whose_right_side_is_bare")
        ttl = (5, 0, 0xFFFFFF, 1, 3, 0)[self.n % 6]
        offer = R.create_offer_entry(ttl)
        find = R.create_find_entry(ttl)
        sub_opts = ((), (self.tcp_ep,), (self.opts[0],))[self.n % 3]  # none / a TCP endpoint / the UDP endpoint: no part of the match
        sub = H.SOMEIPSDEntry(sd_type=H.SOMEIPSDEntryType.Subscribe, service_id=r[0], instance_id=r[1],
                              major_version=r[2], ttl=(3, 0, 0xFFFFFF)[self.n % 3], minver_or_counter=egid | ((self.n % 4) * 5 << 16),
                              options_1=sub_opts)
        # matching looks at ids and versions only: an offer entry straight from the decoder (its option runs still given as
        # indexes into the message's option array) is matched like a hand-built one
        if how == 2:
            try:
                raw = H.SOMEIPSDHeader.parse(bytes(H.SOMEIPSDHeader(entries=(offer,)).assign_option_indexes().build()))[0].entries[0]
                ctx.count("offer_entries_matched_in_decoder_form")
                if L.matches_offer(raw) is not L.matches_offer(offer):
                    self.bad("matches_offer-differs-for-the-decoders-form-of-the-entry", left=l, right=r)
            except Exception as exc:  # noqa: B902
                self.bad("matches_offer-raises-for-the-decoders-form-of-the-entry", left=l, right=r, exc=repr(exc))
        got = dict(
            offer=L.matches_offer(offer), find=L.matches_find(find),
            service=L.matches_service(R), subscribe=L.matches_subscribe(sub),
        )
        if self.n % 3 == 0:
            # an application's own description class (a subclass that presets the ids of "its" service as field defaults) matches
            # by the values it carries, like the base class
            T = self.typed()
            Lt = T(l[0], l[1], l[2], l[3], eventgroups=frozenset(egs))
            ctx.count("descriptions_of_a_subclass_with_preset_ids")
            got_t = dict(offer=Lt.matches_offer(offer), find=Lt.matches_find(find), service=Lt.matches_service(R),
                         subscribe=Lt.matches_subscribe(sub))
            if got_t != got:
                self.bad("description-of-a-subclass-with-preset-ids-matches-differently", left=l, right=r, got=got_t, base=got)
        exp = dict(
            offer=ref("offer", l, r), find=ref("find", l, r), service=ref("service", l, r),
            subscribe=ref("subscribe", l, r) and egid in egs,
        )
        ctx.count("model_agreement_checks", 4)
        for k in got:
            if got[k] is not exp[k]:
                self.bad(f"matches_{k}-disagrees-with-reference", left=l, right=r, egs=sorted(egs), egid=egid,
                         got=got[k], expected=exp[k])
        # law: symmetry of description/description matching
        ctx.count("law_symmetry")
        if R.matches_service(L) is not got["service"]:
            self.bad("matches_service-not-symmetric", left=l, right=r)
        # law: wildcarding a filter field never loses a match
        for idx, w in ((1, W_I), (2, W_M), (3, W_N)):
            lw = tuple(w if i == idx else v for i, v in enumerate(l))
            Lw = self.svc(lw, egs)
            ctx.count("law_monotonic", 3)
            if got["offer"] and not Lw.matches_offer(offer):
                self.bad("wildcard-loses-offer-match", left=l, wild=lw, right=r)
            if got["service"] and not Lw.matches_service(R):
                self.bad("wildcard-loses-service-match", left=l, wild=lw, right=r)
            rw = tuple(w if i == idx else v for i, v in enumerate(r))
            if got["find"] and not L.matches_find(self.svc(rw).create_find_entry(3)):
                self.bad("wildcard-loses-find-match", left=l, right=r, wild=rw)
        # law: a concrete service answers F's find entry iff F accepts the service's offer
        if l[1] != W_I and l[2] != W_M and l[3] != W_N:
            ctx.count("law_duality")
            answers = L.matches_find(R.create_find_entry(3))
            accepts = R.matches_offer(L.create_offer_entry(3))
            if answers is not accepts:
                self.bad("find-offer-duality-broken", service=l, filter=r, answers=answers, accepts=accepts)
        ctx.count("law_subscribe")
        ids_match = ref("subscribe", l, r)
        if got["subscribe"] is not (ids_match and egid in egs):
            self.bad("subscribe-rule-broken", left=l, right=r, egs=sorted(egs), egid=egid)
        # law: for_service succeeds iff the filter accepts the offer, then adopts instance+major
        eg = C.Eventgroup(service_id=l[0], instance_id=l[1], major_version=l[2], eventgroup_id=egid,
                          sockname=("127.0.0.1", 4000), protocol=H.L4Protocols.UDP)
        spec = eg.for_service(R)
        accept = ref("offer", (l[0], l[1], l[2], W_N), r)
        ctx.count("law_for_service")
        if (spec is not None) is not accept:
            self.bad("for_service-disagrees-with-offer-acceptance", eventgroup=l, service=r, got=repr(spec))
        elif spec is not None and (
            spec.instance_id != r[1] or spec.major_version != r[2] or spec.service_id != l[0]
            or spec.eventgroup_id != egid or spec.sockname != eg.sockname or spec.protocol != eg.protocol
        ):
            self.bad("for_service-does-not-adopt-instance-and-major", eventgroup=l, service=r, got=repr(spec))
        asv = eg.as_service()
        if (asv.service_id, asv.instance_id, asv.major_version, asv.minor_version) != (l[0], l[1], l[2], W_N):
            self.bad("as_service-changes-ids", eventgroup=l, got=repr(asv))
        if spec is not None:
            # the specialised eventgroup is a value of its own: used again, it describes and accepts the adopted instance and
            # major version - not what the filter it came from said
            ctx.count("law_for_service_result_used_again")
            sv2 = spec.as_service()
            if (sv2.service_id, sv2.instance_id, sv2.major_version, sv2.minor_version) != (l[0], r[1], r[2], W_N):
                self.bad("specialised-eventgroup-describes-the-filter-instead-of-the-adopted-ids", eventgroup=l, service=r, got=repr(sv2))
            for r2 in ((r[0], (r[1] + 1) & 0xFFFE, r[2], r[3]), (r[0], r[1], (r[2] + 1) & 0xFE, r[3]), r):
                again = spec.for_service(self.svc(r2))
                want = ref("offer", (l[0], r[1], r[2], W_N), r2)
                if (again is not None) is not want:
                    self.bad("specialised-eventgroup-accepts-or-refuses-wrongly", eventgroup=l, first_service=r, second_service=r2,
                             got=repr(again), expected=want)

    def roundtrip(self, t, ttl, with_opts):
        C, H, ctx = self.C, self.H, self.ctx
        # option layouts: none; one per run; the same option in both runs; two in run 1 and a repeat of one of them in run 2;
        # run 1 empty; an option twice inside one run - "preserves ... options" means both runs, as they are
        self.rt = getattr(self, "rt", 0) + 1
        a, b = self.opts[0], self.opts[1]
        # the address-carrying option comes in the forms its declaration allows: transport protocol as the enum member, as the
        # plain number an application may write (17), or as a number the enum has no member for (132, what the decoder
        # then leaves in the field); IPv4 / IPv6; endpoint / multicast / SD endpoint
        import ipaddress as ipa
        forms = (a,
                 H.IPv4EndpointOption(address=ipa.IPv4Address("10.1.2.3"), l4proto=17, port=3000),
                 H.IPv4EndpointOption(address=ipa.IPv4Address("10.1.2.3"), l4proto=132, port=3000),
                 H.IPv6EndpointOption(address=ipa.IPv6Address("fd00::3"), l4proto=6, port=3000),
                 H.IPv4MulticastOption(address=ipa.IPv4Address("239.1.2.3"), l4proto=H.L4Protocols.UDP, port=3000),
                 H.IPv6SDEndpointOption(address=ipa.IPv6Address("fd00::4"), l4proto=17, port=30490),
                 H.IPv6MulticastOption(address=ipa.IPv6Address("ff05::3"), l4proto=0, port=3000))
        a = forms[(self.rt // 6) % len(forms)]
        if with_opts and not isinstance(a.l4proto, H.L4Protocols):
            ctx.count("offer_roundtrips_with_the_transport_protocol_as_a_plain_number")
        layouts = (((a,), (b,)), ((a,), (a,)), ((a, b), (b,)), ((), (a, b)), ((a, a), ()), ((b,), (a, b)))
        o1, o2 = layouts[self.rt % len(layouts)] if with_opts else ((), ())
        s = C.Service(t[0], t[1], t[2], t[3], options_1=o1, options_2=o2, eventgroups=frozenset({1}))
        e = s.create_offer_entry(ttl)
        ctx.count("law_offer_roundtrip")
        back = C.Service.from_offer_entry(e)
        if (
            (e.sd_type, e.service_id, e.instance_id, e.major_version, e.ttl, e.minver_or_counter)
            != (H.SOMEIPSDEntryType.OfferService, t[0], t[1], t[2], ttl, t[3])
            or tuple(e.options_1) != tuple(o1) or tuple(e.options_2) != tuple(o2)
            or (back.service_id, back.instance_id, back.major_version, back.minor_version) != tuple(t)
            or tuple(back.options_1) != tuple(o1) or tuple(back.options_2) != tuple(o2)
        ):
            self.bad("offer-entry-roundtrip-loses-fields", service=t, ttl=ttl, entry=repr(e), back=repr(back))
        f = s.create_find_entry(ttl)
        if (f.sd_type, f.service_id, f.instance_id, f.major_version, f.ttl, f.minver_or_counter) != (
                H.SOMEIPSDEntryType.FindService, t[0], t[1], t[2], ttl, t[3]):
            self.bad("find-entry-fields-wrong", service=t, entry=repr(f))


DOMS = [
    dict(s=(0x1111, 0x2222), i=(1, 2, W_I), m=(1, 2, W_M), n=(1, 2, W_N)),
    dict(s=(0xFFFE, 0xFFFF), i=(7, W_I - 1, W_I), m=(7, W_M - 1, W_M), n=(7, W_N - 1, W_N)),
    # concrete values that are another field's wildcard
    dict(s=(0x00FF, 0xFFFF), i=(0xFF, 1, W_I), m=(1, 2, W_M), n=(0xFF, 0xFFFF, W_N)),
]


def nontrivial(l, r):
    return l != r or W_I in (l[1], r[1]) or W_M in (l[2], r[2]) or W_N in (l[3], r[3])


def run(spec, ctx):
    ck = Checker(ctx)
    if spec["mode"] == "exhaustive":
        d = DOMS[spec["dom"]]
        descs = list(itertools.product(d["s"], d["i"], d["m"], d["n"]))
        egsets = [frozenset(), frozenset({1}), frozenset({2}), frozenset({1, 2})]
        first = True
        for l in descs:
            for r in descs:
                for egs in egsets:
                    for egid in (1, 2, 3):
                        ck.pair(l, r, egs, egid)
                        ctx.case(("pair", l, r, tuple(sorted(egs)), egid), nontrivial(l, r),
                                 sample=dict(left=l, right=r, eventgroups=sorted(egs), eventgroup_id=egid)
                                 if first else None)
                        first = False
        for t in descs:
            for ttl in (0, 3, 0xFFFFFF):
                for wo in (False, True):
                    ck.roundtrip(t, ttl, wo)
        ctx.count("exhaustive_domains_completed")
        ctx.note("domains", repr(d))
        return
    rng = random.Random(f"C19/{spec['seed']}/{spec['shard']}")

    def val(w, width):
        r = rng.random()
        if r < 0.25:
            return w
        if r < 0.4:
            return w - 1
        if r < 0.5:
            return 0
        if r < 0.62:
            # a concrete value that happens to be ANOTHER field's wildcard (0xFF as instance or minor, 0xFFFF as minor):
            # every field has its own wildcard and only that one
            return rng.choice([x for x in (0xFF, 0xFFFF, 0xFFFFFFFF) if x != w and x < (1 << width)] or [1])
        return rng.randrange(1 << width)

    for i in range(spec["n"]):
        l = (rng.randrange(1 << 16), val(W_I, 16), val(W_M, 8), val(W_N, 32))
        if rng.random() < 0.7:
            # related right side: copy, then perturb some fields
            r = list(l)
            for j in range(4):
                if rng.random() < 0.3:
                    r[j] = (rng.randrange(1 << 16), val(W_I, 16), val(W_M, 8), val(W_N, 32))[j]
            r = tuple(r)
        else:
            r = (rng.randrange(1 << 16), val(W_I, 16), val(W_M, 8), val(W_N, 32))
        egs = frozenset(rng.sample(range(0, 6), rng.randrange(0, 4)))
        egid = rng.randrange(0, 6)
        ck.pair(l, r, egs, egid)
        ck.roundtrip(l, rng.choice((0, 1, 3, 0xFFFFFF)), rng.random() < 0.5)
        ctx.case(("rpair", l, r, tuple(sorted(egs)), egid), nontrivial(l, r))


def replay(doc, ctx):
    ck = Checker(ctx)
    l = tuple(doc.get("left") or doc.get("service") or doc.get("eventgroup"))
    r = tuple(doc.get("right") or doc.get("filter") or doc.get("service") or l)
    ck.pair(l, r, frozenset(doc.get("egs", [])), doc.get("egid", 1))
    ck.roundtrip(l, 3, True)
    ctx.case(("replay",), True)
