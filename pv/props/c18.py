"""C18 - stream and datagram framing agree under arbitrary segmentation."""
from __future__ import annotations

import asyncio
import itertools
import random

from pv import gen, refwire
from pv.vloop import VLoop

ID = "C18"
LEVEL = "exploration"
EXHAUSTIVE = True
TECHNIQUE = "runtime differential oracle: real asyncio.StreamReader + SOMEIPReader under enumerated/random chunkings vs datagram decoder and reference framing"
LEVEL_TEXT = ("All 2^(n-1) chunkings of 16..18-byte single-message streams and every single/double cut of streams up to 64 "
              "bytes are enumerated, in two feeding schedules (buffered before the read, reader already waiting with one "
              "chunk per loop iteration) and, for the single cuts and a third of the sampled streams, a third one in which a second "
              "connection is read by another reader in the same loop, fed alternately, with a datagram decoded between chunks; "
              "longer streams, truncations at every byte and corrupted headers are sampled")
LEVEL_NOTE = "trusts asyncio.StreamReader (stock CPython), pv/refwire.py framing rules; loop is the virtual-time loop (no sockets)"
RULE = (
    "streams of 0..8 generated messages (payload 0..4096, boundary-biased); chunkings: all cut sets for 16/17/18-byte "
    "streams, all single and double cuts for streams <= 64 bytes, random cuts incl. all-1-byte and header/payload "
    "boundary cuts for long ones; truncation at every byte position; one corrupted header field in message k; each "
    "case in schedule A (all data fed before the first read) and B (reader waiting, one chunk per loop iteration). "
    "distinct = distinct (message-length vector, cut set, truncation point, corruption, schedule); non-trivial = "
    "at least one cut, truncation or corruption"
)
ASSUMPTIONS = ["asyncio.StreamReader semantics are CPython 3.12's", "reference framing in this module/refwire"]
FLOORS = {"quick": {"streams_read": 100000, "exhaustive_cutsets": 2 ** 15 + 2 ** 16 + 2 ** 17, "truncations": 1200,
                    "corruptions": 400, "schedule_A": 12000, "schedule_B": 100000, "messages_compared": 100000,
                    "datagram_decoder_agreement": 2000, "streams_read_next_to_a_second_connection": 2000,
                    "streams_read_through_a_subclass": 10000,
                    "streams_read_next_to_a_quiet_second_connection": 800,
                    "streams_with_long_pauses_between_chunks": 3000}}


def expected_sequence(b: bytes):
    """reference framing of a byte stream: [('msg', dict)..., ('parse'|'incomplete'|'eof',)]"""
    out = []
    while True:
        if not b:
            out.append(("eof",))
            return out
        if len(b) < 16:
            out.append(("incomplete",))
            return out
        if b[12] != 1 or b[14] not in refwire.MSG_TYPES or b[15] not in refwire.RET_CODES or refwire.u(b[4:8]) < 8:
            out.append(("parse",))
            return out
        size = refwire.u(b[4:8])
        if len(b) - 16 < size - 8:
            out.append(("incomplete",))
            return out
        m, b = refwire.decode_someip(b)
        out.append(("msg", m))


def lib_to_dict(p):
    return dict(sid=p.service_id, mid=p.method_id, cid=p.client_id, sess=p.session_id, pv=p.protocol_version,
                iv=p.interface_version, mt=int(p.message_type), rc=int(p.return_code), payload=bytes(p.payload))


def datagram_sequence(H, b: bytes):
    out = []
    while b:
        try:
            p, b = H.SOMEIPHeader.parse(b)
        except H.IncompleteReadError:
            out.append(("incomplete",))
            return out
        except H.ParseError:
            out.append(("parse",))
            return out
        out.append(("msg", lib_to_dict(p)))
    out.append(("eof",))
    return out


# schedule "C": the stream under test is not alone in its process - a second connection (this fixed stream, in chunks whose size
# depends on the stream under test) is read by another reader in the same loop, fed alternately, and a datagram is decoded between
# the chunks; each stream must still read as if it were alone
COMPANION = b"".join(refwire.encode_someip(dict(sid=0xC0 + i, mid=0x0C00 + i, cid=0xCC, sess=0x700 + i, iv=9, mt=2, rc=0,
                                                payload=bytes([0xC0 + i]) * L)) for i, L in enumerate((5, 0, 33, 1, 200, 0)))
DATAGRAM = refwire.encode_someip(dict(sid=0xD0D0, mid=0x0D0D, cid=0xDD, sess=0xD1, iv=0xD, mt=0x81, rc=4, payload=b"datagram"))


_WRAPPERS = {}


def read_stream(loop, H, chunks, schedule):
    """feed chunks into a real StreamReader and read message by message"""
    reader = asyncio.StreamReader(loop=loop)
    # every third stream is read through a wrapper object that served an earlier connection: the application assigned the new
    # stream to its public `reader` attribute (a reconnect); the other streams get a wrapper of their own
    _WRAPPERS["n"] = _WRAPPERS.get("n", 0) + 1
    if _WRAPPERS["n"] % 3 == 0 and "R" in _WRAPPERS and schedule != "C":
        R = _WRAPPERS["R"]
        R.reader = reader
    else:
        R = H.SOMEIPReader(reader)
        if schedule != "C":
            _WRAPPERS["R"] = R
    results = []

    def consumer(R, results):
        return _consume(H, R, results)

    if schedule == "C":
        reader2 = asyncio.StreamReader(loop=loop)
        results2 = []
        step = 1 + sum(len(c) for c in chunks) % 23
        comp = [COMPANION[i:i + step] for i in range(0, len(COMPANION), step)]
        _WRAPPERS["c"] = _WRAPPERS.get("c", 0) + 1
        if _WRAPPERS["c"] % 2 == 0:
            # the second connection is open but quiet: its reader waits in the middle of a message for as long as the first
            # stream lasts - the first stream's messages do not wait for it
            t2 = loop.create_task(consumer(H.SOMEIPReader(reader2), results2))
            reader2.feed_data(COMPANION[:19])
            loop.run_briefly() if hasattr(loop, "run_briefly") else loop.run_until_complete(asyncio.sleep(0))
            t1 = loop.create_task(consumer(R, results))
            for c in chunks:
                reader.feed_data(c)
                loop.run_until_complete(asyncio.sleep(0))
            reader.feed_eof()
            try:
                loop.run_until_complete(t1)
            except RuntimeError as exc:
                results.append(("reader-hangs", "next to a quiet second connection: " + repr(exc)))
                t1.cancel()
            _WRAPPERS["quiet"] = _WRAPPERS.get("quiet", 0) + 1
            reader2.feed_data(COMPANION[19:])
            reader2.feed_eof()
            try:
                loop.run_until_complete(t2)
            except RuntimeError as exc:
                results2.append(("reader-hangs", repr(exc)))
            return results, results2
        t1 = loop.create_task(consumer(R, results))
        t2 = loop.create_task(consumer(H.SOMEIPReader(reader2), results2))
        pending = list(chunks)

        def feed():
            if pending:
                reader.feed_data(pending.pop(0))
            if comp:
                reader2.feed_data(comp.pop(0))
            try:
                H.SOMEIPHeader.parse(DATAGRAM)
            except Exception as exc:  # noqa: B902
                results2.append(("other-exception", "datagram decode between chunks: " + repr(exc)))
            if pending or comp:
                loop.call_soon(feed)
            else:
                reader.feed_eof()
                reader2.feed_eof()

        loop.call_soon(feed)
        for t in (t1, t2):
            try:
                loop.run_until_complete(t)
            except RuntimeError as exc:
                results.append(("reader-hangs", repr(exc)))
        return results, results2

    consume = lambda: consumer(R, results)  # noqa: E731
    return _read_alone(loop, reader, consume, chunks, schedule, results)


_LOOPS = [0]
_SUB = {}


def _subclass(H):
    if "c" not in _SUB:
        class AppMessage(H.SOMEIPHeader):
            @property
            def request_id(self):
                return (self.client_id << 16) | self.session_id

        _SUB["c"] = AppMessage
    return _SUB["c"]


async def _consume(H, R, results):
    # every fourth consumer is written around the wrapper's at_eof() helper (`while not reader.at_eof(): await reader.read()`)
    # instead of reading until the end-of-stream error; at a clean end both see the same messages
    _LOOPS[0] += 1
    by_helper = _LOOPS[0] % 4 == 0
    via_sub = _LOOPS[0] % 5 == 1
    if via_sub:
        _SUB["n"] = _SUB.get("n", 0) + 1
    if True:
        while True:
            if by_helper and R.at_eof():
                results.append(("eof",))
                return
            try:
                if via_sub:
                    # an application decodes through its own subclass of the message class, on the stream path as on the datagram path
                    sub = _subclass(H)
                    m = await sub.read(R.reader)
                    if m is not None and type(m) is not sub:
                        results.append(("other-exception", f"{sub.__name__}.read() returned a {type(m).__name__}"))
                        return
                else:
                    m = await R.read()
            except H.IncompleteReadError:
                results.append(("incomplete",))
                return
            except H.ParseError:
                results.append(("parse",))
                return
            except asyncio.IncompleteReadError as exc:
                results.append(("eof",))  # boundary or not is decided by position in fix_eof
                return
            except Exception as exc:
                results.append(("other-exception", repr(exc)))
                return
            if m is None:
                results.append(("none",))
                return
            results.append(("msg", lib_to_dict(m)))


def _read_alone(loop, reader, consume, chunks, schedule, results):
    if schedule == "A":
        for c in chunks:
            reader.feed_data(c)
        reader.feed_eof()
        task = loop.create_task(consume())
    else:
        task = loop.create_task(consume())
        pending = list(chunks)
        # every fifth stream pauses once or twice on its way (a retransmission back-off, a slow producer): 7 s and 45 s of loop
        # time between two chunks, wherever the chunk boundary happens to fall - time is no part of the framing
        _WRAPPERS["b"] = _WRAPPERS.get("b", 0) + 1
        pauses = {len(pending) // 2: 7.0, len(pending) // 3: 45.0} if _WRAPPERS["b"] % 5 == 0 and len(pending) > 1 else {}
        if pauses:
            _WRAPPERS["slow"] = _WRAPPERS.get("slow", 0) + 1

        def feed():
            if pending:
                reader.feed_data(pending.pop(0))
                gap = pauses.get(len(pending))
                if gap and pending:
                    loop.call_later(gap, feed)
                else:
                    loop.call_soon(feed)
            else:
                reader.feed_eof()

        loop.call_soon(feed)
    try:
        loop.run_until_complete(task)
    except RuntimeError as exc:
        results.append(("reader-hangs", repr(exc)))
    return results


def fix_eof(results, total: bytes, exp):
    """asyncio signals both 'ended on a boundary' and 'ended inside a message' with its
    IncompleteReadError; tell them apart by position: the stream ended on a boundary iff the
    messages returned so far consumed every byte"""
    if results and results[-1] == ("eof",):
        consumed = sum(16 + len(r[1]["payload"]) for r in results if r[0] == "msg")
        if consumed != len(total):
            results = results[:-1] + [("incomplete",)]
    return results


def check(loop, H, total: bytes, cuts, schedule, ctx, replay, compare_datagram=False):
    chunks = []
    last = 0
    for c in cuts:
        chunks.append(total[last:c])
        last = c
    chunks.append(total[last:])
    chunks = [c for c in chunks if c] or []
    exp = expected_sequence(total)
    got = read_stream(loop, H, chunks, schedule)
    if schedule == "C":
        got, got2 = got
        exp2 = expected_sequence(COMPANION)
        got2 = fix_eof(got2, COMPANION, exp2)
        ctx.count("streams_read_next_to_a_second_connection")
        ctx.count("streams_read_next_to_a_quiet_second_connection", _WRAPPERS.pop("quiet", 0))
        if got2 != exp2:
            i = next((i for i, (g, e) in enumerate(itertools.zip_longest(got2, exp2)) if g != e), 0)
            ctx.violation("second-stream-in-the-same-loop-reads-differently", dict(
                index=i, got=got2[i] if i < len(got2) else None, expected=exp2[i] if i < len(exp2) else None,
                stream_len=len(total), cuts=list(cuts)[:40]), replay)
    got = fix_eof(got, total, exp)
    ctx.count("streams_read")
    ctx.count("streams_with_long_pauses_between_chunks", _WRAPPERS.pop("slow", 0))
    ctx.count("streams_read_through_a_subclass", _SUB.pop("n", 0))
    ctx.count("schedule_" + schedule)
    ctx.count("messages_compared", sum(1 for e in exp if e[0] == "msg"))
    ctx.note("terminal_outcomes", exp[-1][0])
    if got != exp:
        i = next((i for i, (g, e) in enumerate(itertools.zip_longest(got, exp)) if g != e), 0)
        g = got[i] if i < len(got) else None
        e = exp[i] if i < len(exp) else None
        if g and g[0] == "msg" and e and e[0] != "msg":
            mech = "stream-yields-message-where-datagram-decoding-does-not"
        elif g and g[0] == "msg" and e and e[0] == "msg":
            mech = "stream-message-differs-from-datagram-message"
        elif g and g[0] in ("other-exception", "reader-hangs", "none"):
            mech = "stream-reader-" + g[0]
        elif e and e[0] == "parse":
            mech = "rejected-header-not-rejected-with-parse-error-at-same-position"
        elif e and e[0] == "incomplete":
            mech = "cut-stream-not-reported-as-incomplete-read"
        else:
            mech = "stream-sequence-differs"
        ctx.violation(mech, dict(index=i, got=g, expected=e, stream_len=len(total), cuts=list(cuts)[:40],
                                 schedule=schedule), replay)
    if compare_datagram:
        ctx.count("datagram_decoder_agreement")
        dg = datagram_sequence(H, total)
        if dg != exp:
            ctx.violation("datagram-decoder-differs-from-reference-framing",
                          dict(got=dg[-1], expected=exp[-1], stream_len=len(total)), replay)
        # the endpoint's own datagram path (the loop around the decoder in SOMEIPDatagramProtocol.datagram_received) delivers the same
        # messages: every message in front of a rejected header or of the cut is handed on, nothing behind it
        import someip.sd as _S
        got_ep = []

        class _P(_S.SOMEIPDatagramProtocol):
            def message_received(self, someip_message, addr, multicast):
                got_ep.append(lib_to_dict(someip_message))

        try:
            _P().datagram_received(total, ("192.0.2.18", 30518), False)
        except Exception as exc:  # noqa: B902
            got_ep.append(("raised", repr(exc)))
        ctx.count("endpoint_datagram_path_agreement")
        want_ep = [e[1] for e in exp if e[0] == "msg"]
        if got_ep != want_ep:
            ctx.violation("endpoint-datagram-path-delivers-other-messages-than-the-stream-reader",
                          dict(delivered=len(got_ep), expected=len(want_ep), terminal=exp[-1][0], stream_len=len(total)), replay)


def gen_stream(rng, kmax=8, maxpay=4096):
    k = rng.randrange(0, kmax + 1)
    msgs = []
    for _ in range(k):
        n = rng.choice((0, 0, 1, 2, 7, 8, 9, 15, 16, 17, 255, 256, 4095, 4096))
        if rng.random() < 0.4:
            n = rng.randrange(0, 64)
        n = min(n, maxpay)
        if msgs and rng.random() < 0.3:
            # the header of an earlier message of this stream again (same ids, type and code), payload new or the same:
            # what a reader makes of a header must not depend on headers it has seen before
            prev = rng.choice(msgs)
            msgs.append(dict(prev, payload=prev["payload"] if rng.random() < 0.3 else gen.rbytes(rng, n)))
            continue
        # boundary-biased ids (0, 0x8000, 0xFFFF, 0xDEAD / 0xBEEF of the "magic cookie" message, ...): no id pair is special
        msgs.append(dict(sid=gen.u16(rng)[0], mid=rng.choice((0x0000, 0x8000, 0x8100, gen.u16(rng)[0], gen.u16(rng)[0])),
                         cid=rng.choice((0xDEAD, gen.u16(rng)[0])), sess=rng.choice((0xBEEF, gen.u16(rng)[0])),
                         iv=rng.choice((1, rng.randrange(256))), mt=rng.choice(refwire.MSG_TYPES),
                         rc=rng.choice(refwire.RET_CODES), payload=gen.rbytes(rng, n)))
    return msgs


def corrupt(rng, msgs):
    """encode with one corrupted header field in message k"""
    k = rng.randrange(len(msgs))
    parts = [bytearray(refwire.encode_someip(m)) for m in msgs]
    kind = rng.choice(("version", "type", "retcode", "length<8", "length+1", "length-1"))
    p = parts[k]
    if kind == "version":
        p[12] = rng.choice((0, 2, 0xFF))
    elif kind == "type":
        p[14] = rng.choice((3, 0x43, 0x82, 0xFF))
    elif kind == "retcode":
        p[15] = rng.choice((11, 0x20, 0xFF))
    elif kind == "length<8":
        p[4:8] = rng.choice((0, 1, 7)).to_bytes(4, "big")
    elif kind == "length+1":
        p[4:8] = (int.from_bytes(p[4:8], "big") + 1).to_bytes(4, "big")
    else:
        p[4:8] = max(0, int.from_bytes(p[4:8], "big") - 1).to_bytes(4, "big")
    return b"".join(bytes(x) for x in parts), (k, kind)


def shards(tier, seed):
    out = []
    # exhaustive cut sets of 16/17/18-byte single-message streams, split over shards
    parts = 12
    for n in (16, 17, 18):
        for part in range(parts):
            out.append(dict(shard=len(out), seed=seed, mode="cutsets", n=n, part=part, parts=parts))
    out.append(dict(shard=len(out), seed=seed, mode="shortcuts"))
    k = 3 if tier == "quick" else 16
    for i in range(k):
        out.append(dict(shard=len(out), seed=seed, mode="random", n=4000 if tier == "quick" else 300000))
    return out


def run(spec, ctx):
    import someip.header as H

    rng = random.Random(f"C18/{spec['seed']}/{spec['shard']}")
    loop = VLoop()
    asyncio.set_event_loop(loop)
    try:
        _run(spec, ctx, H, rng, loop)
    finally:
        loop.shutdown()
        asyncio.set_event_loop(None)


def _run(spec, ctx, H, rng, loop):
    mode = spec["mode"]
    if mode == "cutsets":
        n = spec["n"]
        m = dict(sid=0x1234, mid=0x5678, cid=0x9ABC, sess=0xDEF0, iv=2, mt=0x80, rc=0,
                 payload=bytes(range(0x41, 0x41 + n - 16)))
        total = refwire.encode_someip(m)
        positions = list(range(1, n))
        nsets = 1 << (n - 1)
        first = True
        for mask in range(spec["part"], nsets, spec["parts"]):
            cuts = [p for i, p in enumerate(positions) if mask >> i & 1]
            check(loop, H, total, cuts, "B", ctx, dict(total=total, cuts=cuts, schedule="B"))
            ctx.count("exhaustive_cutsets")
            ctx.case(("cutset", n, mask), mask != 0,
                     sample=dict(stream_len=n, cuts=cuts, schedule="B") if first and mask > 1000 else None)
            if mask > 1000:
                first = False
            if mask % 16 == 0:
                check(loop, H, total, cuts, "A", ctx, dict(total=total, cuts=cuts, schedule="A"))
        return
    if mode == "shortcuts":
        # every single and double cut position of streams up to 64 bytes, both schedules
        for lens in ((0,), (1,), (0, 0), (0, 3), (5, 0), (0, 0, 0), (2, 1, 0), (30,), (12, 14), (0, 0, 0, 0)):
            msgs = [dict(sid=i + 1, mid=0x10 + i, cid=7, sess=i + 1, iv=1, mt=0, rc=0, payload=bytes([0x30 + i]) * L)
                    for i, L in enumerate(lens)]
            total = b"".join(refwire.encode_someip(x) for x in msgs)
            assert len(total) <= 64
            for a in range(1, len(total)):
                for sch in "ABC":
                    check(loop, H, total, [a], sch, ctx, dict(total=total, cuts=[a], schedule=sch))
                ctx.case(("short1", lens, a), True)
                for b in range(a + 1, len(total)):
                    check(loop, H, total, [a, b], "B", ctx, dict(total=total, cuts=[a, b], schedule="B"))
                    ctx.case(("short2", lens, a, b), True)
            # truncation at every byte position
            for p in range(0, len(total)):
                for sch in "AB":
                    cuts = [c for c in (p // 2,) if 0 < c < p]
                    check(loop, H, total[:p], cuts, sch, ctx, dict(total=total[:p], cuts=cuts, schedule=sch), True)
                ctx.count("truncations")
                ctx.case(("trunc", lens, p), True)
        ctx.count("short_streams_completed")
        return
    for i in range(spec["n"]):
        msgs = gen_stream(rng)
        total = b"".join(refwire.encode_someip(x) for x in msgs)
        kind = rng.choice(("random", "random", "bytewise", "boundaries", "truncate", "corrupt", "corrupt+cut"))
        extra = None
        if kind in ("corrupt", "corrupt+cut") and msgs:
            total, extra = corrupt(rng, msgs)
            ctx.count("corruptions")
        if kind == "truncate" and total:
            p = rng.randrange(0, len(total))
            total = total[:p]
            extra = ("trunc", p)
            ctx.count("truncations")
        n = len(total)
        if kind == "bytewise" and n <= 600:
            cuts = list(range(1, n))
        elif kind == "boundaries":
            cuts, pos = [], 0
            for x in msgs:
                for c in (pos + 8, pos + 16, pos + 16 + len(x["payload"])):
                    if 0 < c < n:
                        cuts.append(c)
                pos += 16 + len(x["payload"])
            cuts = sorted(set(cuts))
        else:
            cuts = sorted(set(rng.randrange(1, n) for _ in range(rng.choice((0, 1, 2, 3, 8, 40))))) if n > 1 else []
        sch = rng.choice("BBBBBBCCCA")
        check(loop, H, total, cuts, sch, ctx, dict(total=total, cuts=cuts, schedule=sch), compare_datagram=True)
        ctx.case(("rand", tuple(len(x["payload"]) for x in msgs), tuple(cuts[:50]), extra, sch),
                 bool(cuts) or extra is not None,
                 sample=dict(payload_lengths=[len(x["payload"]) for x in msgs], cuts=cuts[:20], kind=kind,
                             extra=extra, schedule=sch) if i < 2 else None)
        ctx.note("chunking_kinds", kind)


def replay(doc, ctx):
    import someip.header as H

    loop = VLoop()
    asyncio.set_event_loop(loop)
    try:
        check(loop, H, doc["total"], doc["cuts"], doc["schedule"], ctx, doc, True)
        ctx.case(("replay",), True)
    finally:
        loop.shutdown()
        asyncio.set_event_loop(None)
