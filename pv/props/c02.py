"""C02 - SD messages round-trip: every entry keeps exactly its own options."""
from __future__ import annotations

import ipaddress
import random

from pv import net, refwire, sdgen
from pv.vloop import Harness

ID = "C02"
LEVEL = "exploration"
TECHNIQUE = "runtime round-trip oracle + independent SD decoder + representability rule on generated messages with shared/overlapping option runs"
LEVEL_TEXT = ("Held on every generated SD message of the run: library encode -> library decode + option resolution must give "
              "back flags, entries and both option runs of every entry, an independent decoder must read the same runs from "
              "the bytes, and unrepresentable messages must raise instead of building; inputs are sampled from a generator "
              "that forces sharing, overlap, repeats, 0..17 options per run and 0..300 options per message")
LEVEL_NOTE = "trusts pv/refwire.py; representability judged conservatively (must succeed when every run <= 15 and the sum of run lengths <= 255)"
RULE = (
    "seeded generator: option pool of all kinds (IPv4/IPv6 endpoint, multicast, SD endpoint with enum and raw protocol "
    "numbers, load balancing, config strings with/without values, '=' in values, 255-byte strings, unknown types), runs drawn "
    "as slices of one common sequence (disjoint, identical, overlapping, contained, tail of the array, reused from earlier "
    "entries, prefixes/suffixes of earlier runs), run lengths 0..17, 0..300 options, all four entry types with boundary "
    "field values, six unknown flag bits, a slice with one over-wide field; a slice goes through send_sd. distinct = "
    "distinct (entry-type multiset, run-length classes, sharing patterns, option-count class, fault class); non-trivial = "
    "at least one entry has a non-empty run"
)
ASSUMPTIONS = ["Subscribe/SubscribeAck entries use counter 0..15 and a 16-bit eventgroup id (the decoder rejects other reserved bits by design)",
               "configuration keys non-empty ASCII without '='"]
FLOORS = {"quick": {"messages_resolved_entry_by_entry": 9000, "receive_path": 500, "receive_path_with_leading_sd_endpoint_option": 500, "runs_reaching_beyond_option_256": 60, "messages": 12000, "roundtrips_compared": 9000, "independent_decodes": 9000, "must_fail_cases": 400,
                    "must_fail_raised": 400, "shared_runs_observed": 3000, "send_sd_path": 300, "runs_of_15": 50,
                    "arrays_over_200_options": 8,
                    "mesh_scenarios": 100, "mesh_wire_datagrams": 4800}}
# system-level shards: the mesh workload of pv/mesh.py under this property's boundary monitors (reports of other monitors are dropped)
MESH = {"want": ("wire",), "claim": ("mesh:transmitted-datagram-is-not-well-formed-sd", "mesh:own-transmission-rejected"),
        "quick": (2, 60), "thorough": (16, 1500)}

PATTERNS = ("disjoint", "identical", "overlap", "contained", "tail", "reuse-prev", "prefix-of-prev", "suffix-of-prev", "empty")


def runlen(rng, allow_long):
    r = rng.random()
    if r < 0.25:
        return 0
    if r < 0.5:
        return 1
    if r < 0.75:
        return rng.randrange(2, 6)
    if r < 0.93:
        return rng.randrange(6, 15)
    if r < 0.97 or not allow_long:
        return 15
    return rng.choice((16, 17))


def gen_big_array(rng):
    """an option array of 256..270 distinct options whose last run starts at an index <= 255 (the largest an 8-bit index
    field can name) and reaches beyond position 256 - representable, so it must round-trip"""
    fresh = iter([("lb", i // 256, i % 256 + 1000 * (i // 256)) for i in range(400)])
    first = rng.choice((1, 5, 10, 15))
    entries, keys = [], []
    lens = [first] + [15] * 16  # 241 .. 255 options in front
    last = rng.choice((2, 3, 15)) if first == 15 else rng.choice((15, 15, 256 - (first + 240) + rng.choice((1, 2))))
    lens.append(max(1, min(15, last)))
    for k, n in enumerate(lens):
        f, fkey = sdgen.gen_entry_fields(rng)
        run = [next(fresh) for _ in range(n)]
        r1, r2 = (run, []) if rng.random() < 0.7 else ([], run)
        entries.append((f, r1, r2))
        keys.append((fkey[0], len(r1), len(r2)))
    if rng.random() < 0.5:
        f, fkey = sdgen.gen_entry_fields(rng)
        entries.append((f, list(entries[2][1] or entries[2][2]), list(entries[-1][1] or entries[-1][2])))  # shares two runs
        keys.append((fkey[0], 15, lens[-1]))
    flags = dict(reboot=rng.random() < 0.5, unicast=True, unknown=0)
    return dict(entries=entries, flags=flags, fault=None), (tuple(sorted(keys))[:12], ("big-array",), sum(lens), None)


def gen_message(rng):
    if rng.random() < 0.03:
        return gen_big_array(rng)
    P = rng.choice((0, 1, 2, 3, 5, 8, 8, 20, 20, 60, 150, 300, 300))
    pool = [sdgen.gen_option(rng) for _ in range(P)]
    seq = list(pool)
    for _ in range(rng.choice((0, 0, 1, 2, 5)) if seq else 0):
        seq.insert(rng.randrange(len(seq) + 1), rng.choice(seq))  # repeats inside the sequence
    nent = rng.choice((0, 1, 1, 2, 2, 3, 5, 8, 20, 40))
    allow_long = rng.random() < 0.12
    entries, prev, pats, keys = [], [], set(), []
    for _ in range(nent):
        f, fkey = sdgen.gen_entry_fields(rng)
        pat = rng.choice(PATTERNS)
        l1, l2 = runlen(rng, allow_long), runlen(rng, allow_long)
        n = len(seq)
        a = rng.randrange(n) if n else 0
        if pat == "tail":
            a = max(0, n - l1)
        r1 = seq[a:a + l1]
        if pat == "identical":
            r2 = list(r1)
        elif pat == "overlap":
            b = a + max(1, l1 // 2)
            r2 = seq[b:b + l2]
        elif pat == "contained":
            r2 = seq[a + 1:a + max(1, l1 - 1)]
        elif pat == "reuse-prev" and prev:
            r1 = list(rng.choice(prev))
            r2 = list(rng.choice(prev)) if rng.random() < 0.5 else seq[a:a + l2]
        elif pat == "prefix-of-prev" and prev:
            p = rng.choice(prev)
            r1 = list(p[: max(1, len(p) // 2)])
            r2 = seq[a:a + l2]
        elif pat == "suffix-of-prev" and prev:
            p = rng.choice(prev)
            r1 = list(p[len(p) // 2:])
            r2 = seq[a:a + l2]
        elif pat == "empty":
            r1, r2 = [], []
        else:
            b = rng.randrange(n) if n else 0
            r2 = seq[b:b + l2]
        pats.add(pat)
        for r in (r1, r2):
            if r:
                prev.append(r)
        entries.append((f, r1, r2))
        keys.append((fkey[0], min(len(r1), 16), min(len(r2), 16)))
    flags = dict(reboot=rng.random() < 0.5, unicast=rng.random() < 0.7,
                 unknown=rng.choice((0, 0, 0, 1, 0x20, 0x3F, rng.randrange(64))))
    fault = None
    if entries and rng.random() < 0.05:
        i = rng.randrange(len(entries))
        f = dict(entries[i][0])
        fault = rng.choice(("sid", "iid", "maj", "ttl", "val", "neg"))
        if fault == "sid":
            f["sid"] = rng.choice((0x10000, 0x12345))
        elif fault == "iid":
            f["iid"] = 0x10000
        elif fault == "maj":
            f["maj"] = rng.choice((256, 0x100 + 7))
        elif fault == "ttl":
            f["ttl"] = rng.choice((0x1000000, 0x1000003))
        elif fault == "val" and f["type"] in (0, 1):
            f["val"] = 1 << 32
        else:
            fault = "neg"
            f[rng.choice(("sid", "iid", "maj", "ttl"))] = -1
        entries[i] = (f, entries[i][1], entries[i][2])
    elif entries and rng.random() < 0.03:
        # a configuration string of 256 bytes cannot be represented
        i = rng.randrange(len(entries))
        bad = ("cfg", (("k" * 100, "v" * 155),))
        entries[i] = (entries[i][0], [bad] + list(entries[i][1])[:3], entries[i][2])
        fault = "cfg256"
    return dict(entries=entries, flags=flags, fault=fault), (tuple(sorted(keys))[:12], tuple(sorted(pats)), len(pool), fault)


def classify(msg):
    runs = [r for _, r1, r2 in msg["entries"] for r in (r1, r2)]
    total = sum(len(r) for r in runs)
    longrun = any(len(r) > 15 for r in runs)
    optbad = any(not sdgen.option_ok(o) for r in runs for o in r)
    if msg["fault"] or longrun or optbad:
        return "must_fail"
    if total <= 255:
        return "must_succeed"
    return "either"


def check_message(H, msg, ctx, replay):
    exp = classify(msg)
    entries = tuple(sdgen.lib_entry(H, f, [sdgen.to_lib(H, o) for o in r1], [sdgen.to_lib(H, o) for o in r2])
                    for f, r1, r2 in msg["entries"])
    fl = msg["flags"]
    hdr = H.SOMEIPSDHeader(entries=entries, flag_reboot=fl["reboot"], flag_unicast=fl["unicast"], flags_unknown=fl["unknown"])
    ctx.count("messages")
    ctx.count(exp + "_cases")
    try:
        assigned = hdr.assign_option_indexes()
        built = bytes(assigned.build())
    except Exception as exc:
        if exp == "must_succeed":
            ctx.violation("representable-message-fails-to-encode", dict(exc=repr(exc), summary=summary(msg)), replay)
        else:
            ctx.count(exp + "_raised")
        return None
    # assigning indexes is idempotent: a message that already carries them (assigned twice, or relayed after parsing) encodes to
    # the same bytes
    ctx.count("messages_assigned_twice")
    try:
        again = bytes(assigned.assign_option_indexes().build())
    except Exception as exc:  # noqa: B902
        again = repr(exc)
    if again != built:
        ctx.violation("assigning-option-indexes-twice-changes-the-message", dict(first=built[:120], second=again[:120] if isinstance(again, bytes) else again,
                                                                                summary=summary(msg)), replay)
    nopt = len(assigned.options)
    if nopt > 200:
        ctx.count("arrays_over_200_options")
    if nopt > 256 and any(e.option_index_1 + e.num_options_1 > 256 >= e.option_index_1 or e.option_index_2 + e.num_options_2 > 256 >= e.option_index_2
                          for e in assigned.entries):
        ctx.count("runs_reaching_beyond_option_256")
    total_runs = sum(len(r1) + len(r2) for _, r1, r2 in msg["entries"])
    if total_runs > nopt:
        ctx.count("shared_runs_observed")
    if any(len(r) == 15 for _, r1, r2 in msg["entries"] for r in (r1, r2)):
        ctx.count("runs_of_15")
    problems = []
    # (a) library decode + resolution gives back the message
    try:
        parsed, rest = H.SOMEIPSDHeader.parse(built)
        res = parsed.resolve_options()
        ctx.count("roundtrips_compared")
        # resolution entry by entry (the public per-entry method a dissector uses) gives what the header-level call gives
        per = tuple(e.resolve_options(parsed.options) for e in parsed.entries)
        ctx.count("messages_resolved_entry_by_entry")
        if per != tuple(res.entries):
            problems.append("entry-by-entry resolution differs from the header-level resolution")
        if rest:
            problems.append("bytes left over after decoding")
        if (res.flag_reboot, res.flag_unicast, res.flags_unknown) != (fl["reboot"], fl["unicast"], fl["unknown"]):
            problems.append(f"flags differ: {(res.flag_reboot, res.flag_unicast, res.flags_unknown)}")
        if len(res.entries) != len(entries):
            problems.append(f"entry count {len(res.entries)} != {len(entries)}")
        else:
            for i, (a, b) in enumerate(zip(res.entries, entries)):
                if a != b:
                    what = "fields"
                    if tuple(a.options_1) != tuple(b.options_1):
                        what = f"run 1 ({len(a.options_1)} options decoded, {len(b.options_1)} encoded)"
                    elif tuple(a.options_2) != tuple(b.options_2):
                        what = f"run 2 ({len(a.options_2)} options decoded, {len(b.options_2)} encoded)"
                    problems.append(f"entry {i} differs in {what}")
                    break
    except Exception as exc:
        problems.append(f"library cannot decode its own bytes: {exc!r}")
    # (b) independent decoder reads the same thing
    try:
        ref, rrest = refwire.decode_sd(built)
        ctx.count("independent_decodes")
        flags = (0x80 if fl["reboot"] else 0) | (0x40 if fl["unicast"] else 0) | fl["unknown"]
        if ref["flags"] != flags or rrest:
            problems.append(f"independent decoder: flags byte {ref['flags']:#x} != {flags:#x}")
        if len(ref["entries"]) != len(msg["entries"]):
            problems.append("independent decoder: entry count differs")
        else:
            for i, (e, (f, r1, r2)) in enumerate(zip(ref["entries"], msg["entries"])):
                if any(e[k] != f[k] for k in ("type", "sid", "iid", "maj", "ttl", "val")):
                    problems.append(f"independent decoder: entry {i} fields differ")
                    break
                g1, g2 = refwire.entry_runs(ref, e)
                if g1 != [sdgen.to_ref(o) for o in r1] or g2 != [sdgen.to_ref(o) for o in r2]:
                    problems.append(f"independent decoder: entry {i} option runs differ "
                                    f"(decoded {len(g1)}+{len(g2)}, encoded {len(r1)}+{len(r2)})")
                    break
    except refwire.RefError as exc:
        problems.append(f"independent decoder rejects the bytes: {exc!r}")
    if problems:
        if exp == "must_fail":
            cause = msg["fault"] or "run-longer-than-15"
            mech = "unrepresentable-message-built-into-bytes-that-decode-differently:" + str(cause)
        else:
            mech = "roundtrip-mismatch"
        ctx.violation(mech, dict(problems=problems[:4], summary=summary(msg)), replay)
    elif exp == "must_fail":
        ctx.count("must_fail_but_roundtripped")
    return built


def summary(msg):
    return dict(fault=msg["fault"], flags=msg["flags"],
                entries=[(f["type"], len(r1), len(r2)) for f, r1, r2 in msg["entries"]][:20])


def check_send_sd(H, msg, ctx, rng, replay):
    """same message through ServiceDiscoveryProtocol.send_sd, decoded from the transport"""
    h = Harness(rng)
    prot, tr = net.make_sd(h.loop)
    if rng.random() < 0.3 and len(msg["entries"]) < 40:
        # the same entry twice in one message (one offer answering two finds of one collection window, a repeated
        # Subscribe): "the same entries in the same order" includes the repeats
        msg = dict(msg, entries=list(msg["entries"]))
        k = rng.randrange(len(msg["entries"]))
        msg["entries"].insert(rng.randrange(len(msg["entries"]) + 1), msg["entries"][k])
        ctx.count("send_sd_with_a_repeated_entry")
    entries = [sdgen.lib_entry(H, f, [sdgen.to_lib(H, o) for o in r1], [sdgen.to_lib(H, o) for o in r2])
               for f, r1, r2 in msg["entries"]]
    remote = rng.choice((None, ("10.2.0.9", 30490)))
    h.at(0.0, prot.send_sd, entries, remote)
    h.run(0.5)
    ctx.count("send_sd_path")
    try:
        if len(tr.sent) != 1:
            ctx.violation("send_sd-did-not-transmit-one-datagram", dict(sent=len(tr.sent), problems=h.problems()), replay)
            return
        sent = net.decode_sent(tr.sent)
        if len(sent) != 1:
            ctx.violation("send_sd-datagram-not-one-sd-message", dict(n=len(sent)), replay)
            return
        s = sent[0]
        ok = s["unicast"] and len(s["entries"]) == len(msg["entries"])
        if ok:
            for e, (f, r1, r2) in zip(s["entries"], msg["entries"]):
                if any(e[k] != f[k] for k in ("type", "sid", "iid", "maj", "ttl", "val")) or \
                        e["o1"] != [sdgen.to_ref(o) for o in r1] or e["o2"] != [sdgen.to_ref(o) for o in r2]:
                    ok = False
        if not ok:
            ctx.violation("send_sd-bytes-decode-differently", dict(summary=summary(msg)), replay)
        else:
            check_receive(H, h, tr.sent[0][2], entries, msg, ctx, rng, replay)
    except refwire.RefError as exc:
        ctx.violation("send_sd-bytes-not-wellformed", dict(exc=repr(exc)), replay)
    finally:
        h.close()


def check_receive(H, h, datagram, entries, msg, ctx, rng, replay):
    """decoding and option resolution as the receiving stack does them: the datagram send_sd produced - and the same entries in a
    message whose option array starts with the sender's SD endpoint option, which no entry refers to - handed to a second
    stack's datagram_received; what reaches sd_message_received carries the original entries with their original runs"""
    leading = rng.random() < 0.5
    if leading:
        lead = (H.IPv4SDEndpointOption(address=ipaddress.IPv4Address("10.254.254.254"), l4proto=H.L4Protocols.UDP, port=30490)
                if rng.random() < 0.5 else
                H.IPv6SDEndpointOption(address=ipaddress.IPv6Address("fd00::fe:fe"), l4proto=H.L4Protocols.UDP, port=30490))
        try:
            hdr = H.SOMEIPSDHeader(entries=tuple(entries), options=(lead,), flag_reboot=True, flag_unicast=True)
            payload = bytes(hdr.assign_option_indexes().build())
            ref, _ = refwire.decode_sd(payload)
            for e, (f, r1, r2) in zip(ref["entries"], msg["entries"]):
                g1, g2 = refwire.entry_runs(ref, e)
                if g1 != [sdgen.to_ref(o) for o in r1] or g2 != [sdgen.to_ref(o) for o in r2]:
                    raise refwire.RefError("layout differs")
        except Exception:  # noqa: B902  (not representable with one more option, or laid out differently: not this path's question)
            ctx.count("receive_path_leading_option_not_representable")
            return
        datagram = bytes(H.SOMEIPHeader(service_id=H.SD_SERVICE, method_id=H.SD_METHOD, client_id=0, session_id=1,
                                        interface_version=H.SD_INTERFACE_VERSION, message_type=H.SOMEIPMessageType.NOTIFICATION,
                                        payload=payload).build())
    prot2, _tr2 = net.make_sd(h.loop, addr=("10.0.0.2", 30490))
    got = []
    prot2.sd_message_received = lambda sdhdr, addr, multicast: got.append(sdhdr)
    h.at(h.loop.time() + 0.125, prot2.datagram_received, bytes(datagram), ("10.0.0.1", 30490), False)
    h.run(h.loop.time() + 0.5)
    ctx.count("receive_path_with_leading_sd_endpoint_option" if leading else "receive_path")
    if len(got) != 1:
        ctx.violation("receive-path-did-not-deliver-one-sd-message", dict(n=len(got), leading=leading, summary=summary(msg),
                                                                         problems=h.problems()), replay)
        return
    r = got[0]
    for i, (a, b) in enumerate(zip(r.entries, entries)):
        same = (a.sd_type, a.service_id, a.instance_id, a.major_version, a.ttl, a.minver_or_counter) == \
               (b.sd_type, b.service_id, b.instance_id, b.major_version, b.ttl, b.minver_or_counter)
        if not same or tuple(a.options_1) != tuple(b.options_1) or tuple(a.options_2) != tuple(b.options_2):
            ctx.violation("receive-path-resolves-entries-differently", dict(
                entry=i, leading=leading, got=(len(a.options_1), len(a.options_2)), want=(len(b.options_1), len(b.options_2)),
                summary=summary(msg)), replay)
            return
    if len(r.entries) != len(entries):
        ctx.violation("receive-path-resolves-entries-differently", dict(n=len(r.entries), want=len(entries), leading=leading), replay)


def shards(tier, seed):
    k = 8 if tier == "quick" else 16
    n = 1800 if tier == "quick" else 90000
    return [dict(shard=i, seed=seed, n=n) for i in range(k)]


def run(spec, ctx):
    import someip.header as H

    base = f"C02/{spec['seed']}/{spec['shard']}"
    for i in range(spec["n"]):
        rng = random.Random(f"{base}/{i}")
        msg, key = gen_message(rng)
        replay = dict(rng_seed=base, index=i)
        built = check_message(H, msg, ctx, replay)
        nontrivial = any(r1 or r2 for _, r1, r2 in msg["entries"])
        ctx.case(key, nontrivial, sample=summary(msg) if i < 2 else None)
        for p in key[1]:
            ctx.note("sharing_patterns", p)
        if built is not None and classify(msg) == "must_succeed" and msg["entries"] and i % 5 == 0:
            check_send_sd(H, msg, ctx, rng, replay)


def replay(doc, ctx):
    import someip.header as H

    rng = random.Random(f"{doc['rng_seed']}/{doc['index']}")
    msg, key = gen_message(rng)
    built = check_message(H, msg, ctx, doc)
    if built is not None and classify(msg) == "must_succeed" and msg["entries"]:
        check_send_sd(H, msg, ctx, rng, doc)
    ctx.case(("replay",), True)
