"""C11 - every unicast Subscribe gets exactly one correct Ack or Nack."""
from __future__ import annotations

import collections
import random

from pv import net, refwire, sdgen
from pv.vloop import Harness, RES, AFTER

ID = "C11"
LEVEL = "exploration"
TECHNIQUE = ("runtime acknowledgement-multiset model vs decoded SubscribeAck entries of a live announcer on a virtual-time loop, "
             "Subscribe messages injected through datagram_received against varied server states")
LEVEL_TEXT = ("Held on every generated message of the run: servers with 0-3 instances (running, stopped, never started, wildcard "
              "instance/major ids), listener accept/reject policy, accumulated subscription state, messages of 1-6 Subscribe / "
              "StopSubscribe entries (counter 0..15, TTL {0,1,3,inf}, zero/one/many endpoint options, extra options), unicast and "
              "multicast; after the collection window the SubscribeAck entries on the wire must be exactly one per non-zero-TTL "
              "unicast Subscribe, to the sender only, echoing ids and counter with the predicted TTL; multicast Subscribes must "
              "leave transport, listener and subscription store untouched. Inputs are sampled")
LEVEL_NOTE = ("trusts the acknowledgement model in this module and pv/refwire.py; a StopSubscribe nobody feels responsible for may or "
              "may not be answered (the property only fixes the known-eventgroup case)")
RULE = (
    "per scenario a server configuration (instance pool with concrete and wildcard ids, each running / stopped / never started, "
    "collection timeout 0 or not) and 3-10 messages from 2 senders; entries derive from an instance's ids with service / instance / "
    "major / eventgroup exact or off by one, counter 0..15, TTL {0,1,3,0xFFFFFF}; duplicate-heavy messages included. distinct = "
    "distinct (server state, channel, entry pattern vector); non-trivial = message contains at least one unicast Subscribe with "
    "non-zero TTL"
)
ASSUMPTIONS = ["at most one configured instance matches any generated entry (as the quantifier states)",
               "listener policy: rejects iff (eventgroup + counter) % 4 == 3"]
FLOORS = {"quick": {"messages": 20000, "subscribe_entries": 40000, "acks_expected": 25000, "positive_acks": 8000, "negative_acks": 10000,
                    "nack_no_running_instance": 3000, "nack_listener_rejected": 1500, "stopsubscribe_known_silent": 2000,
                    "multicast_messages_silent": 2000, "duplicate_entry_messages": 1000, "bursts_in_one_iteration": 2000, "wildcard_instance_matches": 1000, "messages_with_more_than_80_subscribe_entries": 200,
                    "mesh_scenarios": 100, "mesh_subscribes_judged": 900, "mesh_positive_acks_expected": 600}}
# system-level shards: the mesh workload of pv/mesh.py under this property's boundary monitors (reports of other monitors are dropped)
MESH = {"want": ("ack",), "claim": ("mesh:subscribe-acknowledgement-differs",),
        "quick": (2, 60), "thorough": (16, 1500)}

FOREVER = 0xFFFFFF
# two link-local peers that differ in the interface they are heard on only (scope id), and a second port on one host
SENDERS = [("10.0.11.2", 30490), ("2001:db8::b2", 30490, 0, 0), ("fe80::aa", 30490, 0, 2), ("fe80::aa", 30490, 0, 3),
           ("10.0.11.2", 30491)]
# instance pool: (sid, iid, maj, eventgroups)
POOL = [(0x8001, 1, 1, (1, 2)), (0x8001, 2, 1, (1,)), (0x8002, 0xFFFF, 1, (5,)), (0x8003, 4, 0xFF, (1, 3)), (0x8004, 0xFFFF, 0xFF, (2,))]


def rejected(eg, counter):
    return (eg + counter) % 4 == 3


def svc_matches(inst, e):
    sid, iid, maj, egs = inst
    return sid == e["sid"] and (iid == 0xFFFF or iid == e["iid"]) and (maj == 0xFF or maj == e["maj"])


def gen_entry(rng, insts):
    base = rng.choice(insts) if insts and rng.random() < 0.85 else rng.choice(POOL)
    sid, iid, maj, egs = base
    e = dict(sid=sid, iid=iid if iid != 0xFFFF else rng.choice((1, 7, 0xFFFE)), maj=maj if maj != 0xFF else rng.choice((1, 9)),
             eg=rng.choice(egs), counter=rng.choice((0, 0, 1, 2, 3, 7, 15)), ttl=rng.choice((0, 1, 3, 3, FOREVER)))
    pat = ["x", "x", "x", "x"]
    r = rng.random()
    if r < 0.12:
        e["sid"] ^= 0x10
        pat[0] = "o"
    elif r < 0.24 and iid != 0xFFFF:
        e["iid"] += 1
        pat[1] = "o"
    elif r < 0.34 and maj != 0xFF:
        e["maj"] += 1
        pat[2] = "o"
    elif r < 0.46:
        e["eg"] = max(egs) + 1
        pat[3] = "o"
    neps = rng.choice((1, 1, 1, 0, 2))
    eps = [refwire.ep4("10.0.11.2", 4000 + i) if i % 2 == 0 else refwire.ep6("2001:db8::b2", 4000 + i) for i in range(neps)]
    extra = [sdgen.to_ref(("lb", 1, 2))] if rng.random() < 0.2 else []
    r = rng.random()
    if r < 0.12:
        # further options that name addresses: an SD endpoint option / a multicast option pointing somewhere else, in front of
        # or behind the endpoints - the acknowledgement still goes to the address the Subscribe came from
        other = rng.choice((refwire.ep4("10.0.0.99", 30490, typ=0x24), refwire.ep6("2001:db8::99", 30490, typ=0x26),
                            refwire.ep4("239.1.1.9", 30490, typ=0x14)))
        eps = [other] + eps if rng.random() < 0.6 else eps + [other]
    e["o1"], e["o2"] = eps, extra
    return e, ("".join(pat), e["counter"], e["ttl"] == 0, neps)


class Scenario:
    def __init__(self, rng, seed):
        import someip.config as C
        import someip.sd as S

        self.rng = rng
        self.ct = rng.choice((0, 0, 2.0 ** -8))
        self.h = Harness(random.Random(seed), max_iterations=100000)
        tm = net.timings(INITIAL_DELAY_MIN=0, INITIAL_DELAY_MAX=0, REPETITIONS_MAX=0, CYCLIC_OFFER_DELAY=0,
                         SEND_COLLECTION_TIMEOUT=self.ct)
        self.prot, self.tr = net.make_sd(self.h.loop, ("10.0.11.1", 30490), timings=tm)
        n = rng.choice((0, 1, 2, 3, 3))
        # at most one instance per service id, so that no entry can match two of them
        self.insts = rng.sample(POOL, n)
        self.state = {}
        self.listener_calls = []
        outer = self

        class L(S.ServerServiceListener):
            # the listener doubles as the table of its current subscribers (a container: empty, hence falsy, when it is handed
            # to the instance)
            def __init__(self):
                self.table = []

            def __len__(self):
                return len(self.table)

            def client_subscribed(self, sub, source):
                outer.listener_calls.append(("sub", sub.id, sub.counter, source))
                if rejected(sub.id, sub.counter):
                    raise S.NakSubscription()
                self.table.append((sub, source))

            def client_unsubscribed(self, sub, source):
                outer.listener_calls.append(("unsub", sub.id, sub.counter, source))
                if (sub, source) in self.table:
                    self.table.remove((sub, source))

        self.objs = []
        for inst in self.insts:
            svc = C.Service(inst[0], inst[1], inst[2], 0, eventgroups=frozenset(inst[3]))
            self.objs.append(S.ServiceInstance(svc, L(), self.prot.announcer, tm))
            self.state[inst] = rng.choice(("running", "running", "running", "stopped"))
        self.mode = rng.choice(("normal",) * 8 + ("announcer-never-started", "announcer-stopped-again"))
        if self.mode == "normal" and rng.random() < 0.15:
            # the application runs the life cycle of its instances itself: registered with the announcer, started one by one
            # through ServiceInstance.start() when their backend is ready - the announcer as a whole is never started
            self.mode = "instances-started-by-themselves"
            for inst in self.insts:
                if self.state[inst] != "running":
                    self.state[inst] = "never-started"
        elif self.mode != "normal":
            for inst in self.insts:
                self.state[inst] = "never-started" if self.mode == "announcer-never-started" else "stopped"
        self.sess = {s: net.PeerSession() for s in SENDERS}

    def setup(self):
        ann = self.prot.announcer
        for inst, obj in zip(self.insts, self.objs):
            ann.announce_service(obj)
        if self.mode == "announcer-never-started":
            return
        if self.mode == "instances-started-by-themselves":
            for inst, obj in zip(self.insts, self.objs):
                if self.state[inst] == "running":
                    obj.start()
            return
        ann.start()
        if self.mode == "announcer-stopped-again":
            ann.stop()
            return
        for inst, obj in zip(self.insts, self.objs):
            if self.state[inst] == "stopped":
                ann.stop_announce_service(obj)

    def store_snapshot(self):
        try:
            return sorted((repr(a), repr(s)) for o in self.objs for a, d in o.subscriptions.store.items() for s in d)
        except Exception:
            return None


def run_scenario(ctx, rng, seed, replay):
    sc = Scenario(rng, seed)
    h = sc.h
    h.at(0.0, sc.setup)
    h.run(0.125)
    ctx.note("server_states", repr(sorted(sc.state.values())))
    t = 0.25
    first = True
    for mi in range(rng.randrange(3, 11)):
        # one to three messages handled in the same loop iteration (two sockets readable at once, several peers)
        batch = []
        for _ in range(rng.choice((1, 1, 1, 2, 3))):
            sender = rng.choice(SENDERS)
            mc = rng.random() < 0.15
            nent = rng.choice((1, 1, 2, 3, 6))
            if rng.random() < 0.03:
                nent = rng.choice((40, 86, 100, 180))  # a client (re)subscribing to everything it knows in one message
            entries, pats = [], []
            dup = rng.random() < 0.12
            for _e in range(nent):
                e, p = gen_entry(rng, sc.insts)
                entries.append(e)
                pats.append(p)
            if dup:
                entries = (entries * 3)[:6]
                pats = (pats * 3)[:6]
                ctx.count("duplicate_entry_messages")
            if len(entries) > 80:
                ctx.count("messages_with_more_than_80_subscribe_entries")
            fl, sid = sc.sess[sender].next("m" if mc else "u")
            data = net.sd_bytes([net.subscribe(e["sid"], e["iid"], e["maj"], e["eg"], e["ttl"], counter=e["counter"], o1=e["o1"], o2=e["o2"])
                                 for e in entries], sid, reboot=fl, share=nent > 20)
            batch.append(dict(sender=sender, mc=mc, entries=entries, pats=pats, data=data))
        if len(batch) > 1:
            ctx.count("bursts_in_one_iteration")
        before_sent = len(sc.tr.sent)
        before_calls = len(sc.listener_calls)
        before_store = sc.store_snapshot()
        for b in batch:
            h.at(t, sc.prot.datagram_received, b["data"], b["sender"], b["mc"])
        if sc.mode == "normal" and sc.ct and rng.random() < 0.12:
            # ... and a stop()+start() shortly BEFORE the batch: StopOffers / Offers are waiting in the multicast collection
            # window when the Subscribes arrive - the acknowledgements still go to the sender, and only there
            ann0 = sc.prot.announcer
            h.at(t - sc.ct / 2, lambda: (ann0.stop(), ann0.start()))
            ctx.count("subscribes_while_the_multicast_window_is_open")
        if sc.mode == "normal" and rng.random() < 0.2:
            # the announcer is stopped and started again while the acknowledgements of this batch are still waiting in their
            # collection window (or right behind the batch when nothing is collected): they still leave, and later batches
            # are answered as ever
            ann = sc.prot.announcer
            h.at(t + (sc.ct / 2 if sc.ct else 0.0), lambda: (ann.stop(), ann.start()), rank=AFTER)
            ctx.count("announcer_restarts_inside_the_answer_window")
        uc = [b for b in batch if not b["mc"]]
        if sc.ct and uc and rng.random() < 0.12:
            # the subscriber restarts and says so (session id starts over) while its acknowledgements are still waiting in
            # the collection window: they are owed all the same
            who = rng.choice(uc)["sender"]
            sc.sess[who].reboot()
            fl2, sid2 = sc.sess[who].next("u")
            h.at(t + sc.ct / 2, sc.prot.datagram_received, net.sd_bytes([net.find(0x7F7F, 1, 1, 0)], sid2, reboot=fl2), who, False)
            ctx.count("sender_reboots_inside_the_answer_window")
        h.run(t + max(sc.ct, 0) + 2.0 ** -6)
        ctx.count("messages", len(batch))
        ctx.count("subscribe_entries", sum(len(b["entries"]) for b in batch))
        new = sc.tr.sent[before_sent:]
        detail = dict(instances=[(i, sc.state[i]) for i in sc.insts], collection_timeout=sc.ct,
                      messages=[dict(multicast=b["mc"], sender=b["sender"],
                                     entries=[{k: v for k, v in e.items() if k not in ("o1", "o2")} | {"endpoints": len(e["o1"])} for e in b["entries"]])
                                for b in batch])
        try:
            decoded = net.decode_sent(new)
        except refwire.RefError as exc:
            ctx.violation("undecodable-transmission", dict(exc=repr(exc), **detail), replay)
            decoded = []
        acks = collections.Counter()
        senders_uc = {b["sender"] for b in batch if not b["mc"]}
        for m in decoded:
            for e in m["entries"]:
                if e["type"] == 1 and m["dst"] == net.MCAST:
                    continue  # the instances' own offers
                if e["type"] != 7:
                    ctx.violation("unexpected-entry-sent-after-subscribe", dict(entry=e, dst=m["dst"], **detail), replay)
                    continue
                if m["dst"] not in senders_uc:
                    ctx.violation("subscribe-ack-not-sent-to-the-sender-only" if m["dst"] not in {b["sender"] for b in batch}
                                  else "multicast-subscribe-answered-or-changed-state", dict(dst=m["dst"], **detail), replay)
                    continue
                if m["t"] > t + sc.ct + 4 * RES:
                    ctx.violation("subscribe-ack-later-than-collection-timeout", dict(at=m["t"], received=t, **detail), replay)
                acks[(m["dst"], e["sid"], e["iid"], e["maj"], e["val"] & 0xFFFF, (e["val"] >> 16) & 0xF, e["ttl"])] += 1
        if all(b["mc"] for b in batch):
            ctx.count("multicast_messages_silent", len(batch))
            # subscriptions recorded earlier may run out of TTL meanwhile; nothing may be added or acknowledged
            added = before_store is not None and not set(sc.store_snapshot()) <= set(before_store)
            if acks or any(c[0] == "sub" for c in sc.listener_calls[before_calls:]) or added:
                ctx.violation("multicast-subscribe-answered-or-changed-state",
                              dict(acks=list(acks), listener_calls=sc.listener_calls[before_calls:], **detail), replay)
        must = collections.Counter()
        may = collections.Counter()
        for b in batch:
            if b["mc"]:
                continue
            for e in b["entries"]:
                matching = [i for i in sc.insts if svc_matches(i, e)]
                inst = matching[0] if matching else None
                ok = inst is not None and sc.state[inst] == "running" and e["eg"] in inst[3]
                if inst is not None and ok and (inst[1] == 0xFFFF or inst[2] == 0xFF):
                    ctx.count("wildcard_instance_matches")
                key = (b["sender"], e["sid"], e["iid"], e["maj"], e["eg"], e["counter"])
                if e["ttl"] == 0:
                    if ok:
                        ctx.count("stopsubscribe_known_silent")
                    else:
                        may[key + (0,)] += 1
                    continue
                ctx.count("acks_expected")
                if ok and not rejected(e["eg"], e["counter"]):
                    must[key + (e["ttl"],)] += 1
                    ctx.count("positive_acks")
                else:
                    must[key + (0,)] += 1
                    ctx.count("negative_acks")
                    ctx.count("nack_listener_rejected" if ok else "nack_no_running_instance")
        missing = must - acks
        surplus = acks - must - may
        if missing or surplus:
            if missing and not surplus:
                mech = "subscribe-not-acknowledged-exactly-once"
            elif surplus and not missing:
                mech = "surplus-subscribe-ack"
            else:
                mk = {k[:6] for k in missing}
                sk = {k[:6] for k in surplus}
                mech = "subscribe-ack-ttl-differs-from-model" if mk & sk else "subscribe-ack-ids-or-counter-not-echoed"
            ctx.violation(mech, dict(missing=list(missing.elements())[:4], surplus=list(surplus.elements())[:4], **detail), replay)
        key = (tuple(sorted((i[0], sc.state[i]) for i in sc.insts)), tuple((b["mc"], tuple(b["pats"])) for b in batch), sc.ct > 0)
        nt = any((not b["mc"]) and any(e["ttl"] for e in b["entries"]) for b in batch)
        ctx.case(key, nt, sample=detail if first and nt else None)
        if nt:
            first = False
        t += rng.choice((2.0 ** -5, 0.25, 1.5, 3.5))
    problems = h.problems()
    h.close()
    for p in problems:
        ctx.violation("unexpected-exception-during-run", dict(problem=p), replay)


def shards(tier, seed):
    return [dict(shard=i, seed=seed, n=250 if tier == "quick" else 12000) for i in range(16)]


def run(spec, ctx):
    base = f"C11/{spec['seed']}/{spec['shard']}"
    for i in range(spec["n"]):
        run_scenario(ctx, random.Random(f"{base}/{i}"), f"{base}/{i}", dict(base=base, index=i))


def replay(doc, ctx):
    run_scenario(ctx, random.Random(f"{doc['base']}/{doc['index']}"), f"{doc['base']}/{doc['index']}", doc)
