"""Byte-level corpus: valid (also legal-but-non-canonical) SOME/IP / SD messages emitted by
the reference encoder with a map of their length/count/index fields, and structured
mutations of them."""
from __future__ import annotations

from pv import gen, refwire, sdgen


class Layout:
    """bytes plus the offsets of interesting fields: [(name, offset, size, true_value)]"""

    def __init__(self):
        self.buf = bytearray()
        self.fields = []
        self.cfg_text = []  # (offset, length) of configuration strings
        self.opt_bodies = []  # (offset, length)

    def put(self, b, name=None):
        if name:
            self.fields.append((name, len(self.buf), len(b), int.from_bytes(b, "big")))
        self.buf += b

    def shifted(self, delta):
        self.fields = [(n, o + delta, s, v) for n, o, s, v in self.fields]
        self.cfg_text = [(o + delta, l) for o, l in self.cfg_text]
        self.opt_bodies = [(o + delta, l) for o, l in self.opt_bodies]


def noncanon_option(rng, spec):
    """reference form of an option with legal non-canonical freedom (reserved bytes,
    garbage after the config terminator)"""
    k = spec[0]
    nc = rng.random() < 0.35
    if k == "ip4":
        return refwire.opt_ipv4(spec[1], spec[2], spec[3], spec[4], r1=rng.randrange(256) if nc else 0,
                                r2=rng.randrange(256) if nc else 0)
    if k == "ip6":
        return refwire.opt_ipv6(spec[1], spec[2], spec[3], spec[4], r1=rng.randrange(256) if nc else 0,
                                r2=rng.randrange(256) if nc else 0)
    if k == "lb":
        return refwire.opt_loadbal(spec[1], spec[2], r=rng.randrange(256) if nc else 0)
    if k == "cfg":
        items = [(kk if v is None else kk + "=" + v).encode("ascii") for kk, v in spec[1]]
        items = [it for it in items if 0 < len(it) <= 255]
        if rng.random() < 0.1:
            items.append(b"=" + b"novalue"[: rng.randrange(0, 7)])  # empty key: decodable
        if items and rng.random() < 0.07:
            # a WELL-FORMED multi-byte UTF-8 sequence inside a string (correctly framed: the length byte counts bytes): not
            # ASCII, so the format refuses it - a decoder that accepts it must at least be able to give the same bytes back
            i = rng.randrange(len(items))
            if len(items[i]) < 250:
                k = rng.randrange(len(items[i]) + 1)
                items[i] = items[i][:k] + rng.choice(("\u00fc", "\u20ac", "Z\u00fcrich", "\U0001F600")).encode("utf-8") + items[i][k:]
        return refwire.opt_config(items, r=rng.randrange(256) if nc else 0,
                                  trailer=gen.rbytes(rng, rng.randrange(1, 6)) if nc and rng.random() < 0.5 else b"")
    return (spec[1], bytes(spec[2]))


def gen_sd_payload(rng, canonical=False):
    """-> Layout of a decodable SD payload (possibly non-canonical), info dict"""
    nopt = rng.choice((0, 0, 1, 1, 2, 3, 5, 10, 40))
    specs = [sdgen.gen_option(rng) for _ in range(nopt)]
    if specs and rng.random() < 0.3:
        specs.insert(rng.randrange(len(specs)), rng.choice(specs))  # duplicate option
    options = [sdgen.to_ref(s) if canonical else noncanon_option(rng, s) for s in specs]
    nopt = len(options)
    nent = rng.choice((0, 1, 1, 2, 3, 6, 20))
    entries = []
    for _ in range(nent):
        f, _k = sdgen.gen_entry_fields(rng)
        n1 = rng.choice((0, 0, 1, 2, min(15, nopt)))
        n2 = rng.choice((0, 0, 0, 1, min(15, nopt)))
        n1, n2 = min(n1, nopt, 15), min(n2, nopt, 15)
        i1 = rng.randrange(0, nopt - n1 + 1)
        i2 = rng.randrange(0, nopt - n2 + 1)
        if canonical:
            if n1 == 0:
                i1 = 0
            if n2 == 0:
                i2 = 0
        f.update(i1=i1, i2=i2, n1=n1, n2=n2)
        entries.append(f)
    flags = rng.choice((0x40, 0xC0, 0x80, 0x00)) | (0 if canonical else rng.choice((0, 0, 1, 0x3F, rng.randrange(64))))
    reserved = b"\0\0\0" if canonical or rng.random() < 0.7 else gen.rbytes(rng, 3)
    lay = Layout()
    lay.put(bytes([flags]), "flags")
    lay.put(reserved)
    lay.put(refwire.be(16 * len(entries), 4), "entries_length")
    for e in entries:
        lay.put(bytes([e["type"]]), "entry_type")
        lay.put(bytes([e["i1"]]), "index1")
        lay.put(bytes([e["i2"]]), "index2")
        lay.put(bytes([(e["n1"] << 4) | e["n2"]]), "counts")
        lay.put(refwire.encode_entry(e)[4:12])
        lay.put(refwire.be(e["val"], 4), "entry_val")
    ob = b"".join(refwire.encode_option(t, b) for t, b in options)
    lay.put(refwire.be(len(ob), 4), "options_length")
    for t, body in options:
        lay.put(refwire.be(len(body), 2), "option_length")
        lay.put(bytes([t]), "option_type")
        off = len(lay.buf)
        lay.opt_bodies.append((off, len(body)))
        if t == 0x01 and refwire.classify_option_body(t, body) == "ok":
            p = 1
            while body[p] != 0:
                lay.fields.append(("config_strlen", off + p, 1, body[p]))
                lay.cfg_text.append((off + p + 1, body[p]))
                p += 1 + body[p]
        lay.put(body)
    info = dict(entries=len(entries), options=nopt, canonical=canonical)
    return lay, info


def gen_someip(rng, payload=None, sd=False):
    lay = Layout()
    if payload is None:
        payload = gen.rbytes(rng, gen.paylen(rng, 2000)[0])
    if sd:
        m = dict(sid=0xFFFF, mid=0x8100, cid=rng.choice((0, 0, 7)), sess=rng.randrange(1, 0x10000), iv=1, mt=2, rc=0)
    else:
        m = dict(sid=gen.u16(rng)[0], mid=gen.u16(rng)[0], cid=gen.u16(rng)[0], sess=gen.u16(rng)[0],
                 iv=gen.u8(rng)[0], mt=rng.choice(refwire.MSG_TYPES), rc=rng.choice(refwire.RET_CODES))
    lay.put(refwire.be(m["sid"], 2), "service")
    lay.put(refwire.be(m["mid"], 2), "method")
    lay.put(refwire.be(len(payload) + 8, 4), "length")
    lay.put(refwire.be(m["cid"], 2))
    lay.put(refwire.be(m["sess"], 2), "session")
    lay.put(b"\x01", "protocol_version")
    lay.put(bytes([m["iv"]]), "interface_version")
    lay.put(bytes([m["mt"]]), "message_type")
    lay.put(bytes([m["rc"]]), "return_code")
    lay.put(payload)
    return lay, m


def wrap_sd(rng, sdlay: Layout):
    """SD payload inside a SOME/IP SD notification; field offsets carried over"""
    lay, m = gen_someip(rng, bytes(sdlay.buf), sd=True)
    sdlay.shifted(16)
    lay.fields += sdlay.fields
    lay.cfg_text = sdlay.cfg_text
    lay.opt_bodies = sdlay.opt_bodies
    return lay, m


MUTATIONS = ("bitflip", "byte", "trunc", "insert", "dup", "field", "field", "field", "nonascii", "optpayload", "delete")


def mutate(rng, lay: Layout, kind=None):
    """-> (bytes, description)"""
    b = bytearray(lay.buf)
    n = len(b)
    kind = kind or rng.choice(MUTATIONS)
    if n == 0:
        return bytes(gen.rbytes(rng, rng.randrange(0, 8))), ("random-from-empty",)
    if kind == "bitflip":
        for _ in range(rng.choice((1, 1, 2, 3))):
            p = rng.randrange(n)
            b[p] ^= 1 << rng.randrange(8)
        return bytes(b), ("bitflip",)
    if kind == "byte":
        p = rng.randrange(n)
        b[p] = rng.choice((0, 1, 0x7F, 0x80, 0xFF, rng.randrange(256)))
        return bytes(b), ("byte", p)
    if kind == "trunc":
        p = rng.randrange(n)
        return bytes(b[:p]), ("trunc", p)
    if kind == "insert":
        p = rng.randrange(n + 1)
        ins = gen.rbytes(rng, rng.randrange(1, 9))
        return bytes(b[:p] + ins + b[p:]), ("insert", p, len(ins))
    if kind == "delete":
        p = rng.randrange(n)
        q = min(n, p + rng.randrange(1, 9))
        return bytes(b[:p] + b[q:]), ("delete", p, q - p)
    if kind == "dup":
        p = rng.randrange(n)
        q = min(n, p + rng.randrange(1, 40))
        return bytes(b[:q] + b[p:q] + b[q:]), ("dup", p, q - p)
    if kind == "field" and lay.fields:
        name, off, size, true = rng.choice(lay.fields)
        mx = (1 << (8 * size)) - 1
        v = rng.choice((0, 1, max(0, true - 1), min(mx, true + 1), mx, rng.randrange(mx + 1)))
        if name == "counts":
            v = rng.choice((0x00, 0x0F, 0xF0, 0xFF, (true + 0x10) & 0xFF, (true + 1) & 0xFF))
        b[off:off + size] = v.to_bytes(size, "big")
        return bytes(b), ("field", name, v)
    if kind == "nonascii" and lay.cfg_text:
        off, ln = rng.choice(lay.cfg_text)
        if ln:
            p = off + rng.randrange(ln)
            b[p] = rng.choice((0x80, 0xFF, 0xC3, rng.randrange(0x80, 0x100)))
            return bytes(b), ("nonascii", p)
    if kind == "optpayload" and lay.opt_bodies:
        off, ln = rng.choice(lay.opt_bodies)
        if ln:
            p = off + rng.randrange(ln)
            b[p] = rng.randrange(256)
            return bytes(b), ("optpayload", p)
    p = rng.randrange(n)
    b[p] ^= 0xFF
    return bytes(b), ("invert", p)
