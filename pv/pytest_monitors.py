"""pytest plugin: runs the repository's own tests with the reference-model monitors installed.

    cd /repo && PYTHONPATH=/verif:/repo/src /venv/bin/python -m pytest -q -p no:cacheprovider -p pv.pytest_monitors

Every call the tests make to the wrapped functions is compared with the independent model used by the checks
(wildcard matcher, reboot detector, session-id allocator, wire layout / accept-reject prediction).  A disagreement is
either a model that is too strict or a defect the tests do not assert - both worth reading.  Nothing in /repo is edited:
the wrappers are installed from here at import time.  Results: a summary line at the end of the session and exit status 1
when a monitor fired (file /verif/.work/repo_tests_monitors.json has the details)."""
from __future__ import annotations

import collections
import json
import os

from pv import refwire

COUNTS = collections.Counter()
FIRED = []


def fired(kind, **detail):
    COUNTS["fired"] += 1
    if len(FIRED) < 50:
        FIRED.append(dict(kind=kind, **{k: repr(v)[:300] for k, v in detail.items()}))


def install():
    import someip.config as C
    import someip.header as H
    import someip.sd as S

    from pv.props import c19

    def tup(s):
        return (s.service_id, s.instance_id, s.major_version, s.minor_version)

    def ent(e, minor=True):
        return (e.service_id, e.instance_id, e.major_version, e.minver_or_counter if minor else 0)

    def wrap_match(name, kind):
        orig = getattr(C.Service, name)

        def wrapper(self, other):
            r = orig(self, other)
            COUNTS[name] += 1
            try:
                if kind == "service":
                    exp = c19.ref("service", tup(self), tup(other))
                elif kind == "subscribe":
                    exp = c19.ref("subscribe", tup(self), ent(other, False)) and other.eventgroup_id in self.eventgroups
                else:
                    exp = c19.ref(kind, tup(self), ent(other))
                if bool(r) is not bool(exp):
                    fired(name, left=self, right=other, got=r, expected=exp)
            except Exception as exc:  # monitor must never break a test
                COUNTS["monitor_errors"] += 1
            return r

        setattr(C.Service, name, wrapper)

    wrap_match("matches_offer", "offer")
    wrap_match("matches_find", "find")
    wrap_match("matches_subscribe", "subscribe")
    wrap_match("matches_service", "service")

    SS = S._SessionStorage
    orig_cr = SS.check_received
    orig_ao = SS.assign_outgoing

    def check_received(self, sender, multicast, flag, session_id):
        model = self.__dict__.setdefault("_pv_in", {})
        old = model.get((sender, multicast))
        model[(sender, multicast)] = (flag, session_id)
        exp = old is not None and bool(flag and (not old[0] or (old[1] > 0 and session_id <= old[1])))
        r = orig_cr(self, sender, multicast, flag, session_id)
        COUNTS["check_received"] += 1
        if bool(r) is not exp:
            fired("check_received", key=(sender, multicast), old=old, new=(flag, session_id), got=r, expected=exp)
        return r

    def assign_outgoing(self, remote):
        model = self.__dict__.setdefault("_pv_out", {})
        r = orig_ao(self, remote)
        COUNTS["assign_outgoing"] += 1
        # the tests sometimes preset the table; follow what the table said before this call only when we have our own history
        if remote in model:
            flag, sid = model[remote]
            if tuple(r) != (flag, sid):
                # a test may have rewritten session_storage.outgoing by hand: resynchronise instead of alarming
                COUNTS["assign_outgoing_resync"] += 1
        flag, sid = r
        model[remote] = (False, 1) if sid >= 0xFFFF else (flag, sid + 1)
        if sid == 0 or sid > 0xFFFF:
            fired("assign_outgoing", remote=remote, got=r)
        return r

    SS.check_received = check_received
    SS.assign_outgoing = assign_outgoing

    orig_build = H.SOMEIPHeader.build
    orig_parse = H.SOMEIPHeader.parse.__func__
    orig_sdparse = H.SOMEIPSDHeader.parse.__func__

    def build(self):
        b = orig_build(self)
        COUNTS["SOMEIPHeader.build"] += 1
        try:
            ref = refwire.encode_someip(dict(sid=self.service_id, mid=self.method_id, cid=self.client_id, sess=self.session_id,
                                             pv=self.protocol_version, iv=self.interface_version, mt=int(self.message_type),
                                             rc=int(self.return_code), payload=bytes(self.payload)))
            if bytes(b) != ref:
                fired("SOMEIPHeader.build", msg=self, got=bytes(b)[:40], expected=ref[:40])
        except Exception:
            COUNTS["monitor_errors"] += 1
        return b

    def parse(cls, buf):
        exp = refwire.classify_someip(bytes(buf))
        COUNTS["SOMEIPHeader.parse"] += 1
        try:
            r = orig_parse(cls, buf)
        except H.ParseError:
            if exp[0] != "parse":
                fired("SOMEIPHeader.parse", input=bytes(buf)[:60], got="ParseError", expected=exp)
            raise
        if exp[0] != "ok" or len(buf) - len(r[1]) != exp[1]:
            fired("SOMEIPHeader.parse", input=bytes(buf)[:60], got="ok", expected=exp)
        return r

    def sdparse(cls, buf):
        exp = refwire.classify_sd(bytes(buf))
        COUNTS["SOMEIPSDHeader.parse"] += 1
        try:
            r = orig_sdparse(cls, buf)
        except H.ParseError:
            if exp[0] != "parse":
                fired("SOMEIPSDHeader.parse", input=bytes(buf)[:80], got="ParseError", expected=exp)
            raise
        except UnicodeDecodeError:
            if exp[0] != "unicode":
                fired("SOMEIPSDHeader.parse", input=bytes(buf)[:80], got="UnicodeDecodeError", expected=exp)
            raise
        if exp[0] != "ok" or len(buf) - len(r[1]) != exp[1]:
            fired("SOMEIPSDHeader.parse", input=bytes(buf)[:80], got="ok", expected=exp)
        return r

    H.SOMEIPHeader.build = build
    H.SOMEIPHeader.parse = classmethod(parse)
    H.SOMEIPSDHeader.parse = classmethod(sdparse)


install()


def pytest_sessionfinish(session, exitstatus):
    wid = os.environ.get("PYTEST_XDIST_WORKER", "main")
    d = os.path.join(os.path.dirname(os.path.dirname(os.path.abspath(__file__))), ".work")
    os.makedirs(d, exist_ok=True)
    with open(os.path.join(d, f"repo_tests_monitors.{wid}.json"), "w") as f:
        json.dump(dict(counts=dict(COUNTS), fired=FIRED), f, indent=1)
    if COUNTS["fired"]:
        session.exitstatus = 1


def pytest_terminal_summary(terminalreporter):
    terminalreporter.write_line(f"pv monitors: {dict(COUNTS)}")
    for x in FIRED[:10]:
        terminalreporter.write_line(f"pv monitor FIRED: {x}")
