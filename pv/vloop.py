"""Virtual-time asyncio event loop and the per-scenario monitoring harness.

Only the clock and the selector are replaced: ``call_soon``, ``call_later``, tasks,
cancellation and the batching of due timers are CPython's own ``BaseEventLoop``.
"""
from __future__ import annotations

import asyncio
import logging
import math
import socket
import warnings

RES = 1e-9  # clock resolution (same as time.get_clock_info('monotonic').resolution here)
EPS = 2.0 ** -20  # > RES: adjacent, separate loop iteration
BEFORE, AFTER = -1, 1  # rank of a scripted action relative to timers due at the same instant


class RankedHandle(asyncio.TimerHandle):
    """a timer handle that sorts before (rank -1) or after (rank +1) every ordinary timer
    with the same deadline.  Ordinary TimerHandles compare by deadline only, so the order
    of equal deadlines would otherwise be an accident of the heap's shape.  Python tries
    the subclass's reflected comparison first, so these methods decide in both operand
    positions.  Same deadline + rank -1 reproduces production: the selector loop queues
    socket readers before the timers that fall due in the same iteration."""

    __slots__ = ("_rank", "_seq")
    _counter = 0

    def __init__(self, when, callback, args, loop, rank, context=None, fifo=False):
        super().__init__(when, callback, args, loop, context)
        self._rank = rank
        RankedHandle._counter += 1
        n = RankedHandle._counter
        tb = "fifo" if fifo else getattr(loop, "tiebreak", "fifo")
        if tb == "fifo":
            self._seq = n
        elif tb == "lifo":
            self._seq = -n
        else:
            self._seq = loop.tiebreak_rng.random()

    def _key(self):
        return (self._when, self._rank, self._seq)

    @staticmethod
    def _okey(other):
        if isinstance(other, RankedHandle):
            return other._key()
        return (other._when, 0, 0)

    def __lt__(self, other):
        return self._key() < self._okey(other)

    def __le__(self, other):
        return self._key() <= self._okey(other)

    def __gt__(self, other):
        return self._key() > self._okey(other)

    def __ge__(self, other):
        return self._key() >= self._okey(other)

    def __eq__(self, other):
        return self is other

    __hash__ = asyncio.TimerHandle.__hash__


class _VSelector:
    def __init__(self, loop: "VLoop"):
        self.loop = loop

    def select(self, timeout=None):
        loop = self.loop
        loop.iteration += 1
        if loop.max_iterations is not None and loop.iteration > loop.max_iterations:
            loop.budget_exceeded = True
            loop.stop()
            return []
        if timeout is None or timeout > 0:
            sched = loop._scheduled
            now = loop._vnow
            if not sched or sched[0]._when - now >= RES:
                # idle point: nothing ready, next timer at least one resolution away
                loop.idle_points += 1
                for hook in loop.idle_hooks:
                    hook()
                if loop._ready:
                    return []  # a hook scheduled something; run it first
                if loop._stop_when_idle:
                    loop._stop_when_idle = False
                    loop.stop()
                    return []
            if not loop._scheduled:
                loop.stop()
                return []
            w = max(now, loop._scheduled[0]._when)
            if w + RES == w:
                # beyond 2**24 s a double cannot represent now + resolution; a real clock
                # would have moved on by the time the loop looks again
                w = math.nextafter(w, math.inf)
            loop._vnow = w
        return []

    def close(self):
        pass


class VLoop(asyncio.BaseEventLoop):
    def __init__(self):
        super().__init__()
        self._vnow = 0.0
        self._clock_resolution = RES
        self._selector = _VSelector(self)
        self.iteration = 0
        self.idle_points = 0
        self.idle_hooks = []
        self.max_iterations = None
        self.budget_exceeded = False
        self._stop_when_idle = False
        self.gai_latency = 0.0
        self.gai_calls = 0
        self.tiebreak = "fifo"
        self.tiebreak_rng = None
        self.loop_exceptions = []
        self.tasks = []
        self.set_exception_handler(self._record_exception)
        self.set_task_factory(self._pv_task_factory)

    # -- BaseEventLoop plumbing ---------------------------------------------------
    def time(self):
        return self._vnow

    def _process_events(self, event_list):
        pass

    def _write_to_self(self):
        pass

    def _pv_task_factory(self, loop, coro, **kw):
        t = asyncio.Task(coro, loop=loop, **kw)
        self.tasks.append(t)
        return t

    def _record_exception(self, loop, context):
        exc = context.get("exception")
        self.loop_exceptions.append(
            (self._vnow, context.get("message"), type(exc).__name__, repr(exc))
        )

    async def getaddrinfo(self, host, port, *, family=0, type=0, proto=0, flags=0):
        self.gai_calls += 1
        lat = self.gai_latency
        if callable(lat):
            lat = lat(host, port)
        if lat:
            await asyncio.sleep(lat)
        if family == socket.AF_INET6 or (family == 0 and ":" in host):
            return [(socket.AF_INET6, type, proto, "", (host, port, 0, 0))]
        return [(socket.AF_INET, type, proto, "", (host, port))]

    def call_at(self, when, callback, *args, context=None):
        """as BaseEventLoop.call_at, but timers with exactly equal deadlines run in a
        defined order (FIFO by default; 'lifo' / 'random' explore the other orders) instead
        of whatever the heap's shape happens to give.  With dyadic virtual times equal
        deadlines are common, and scripted actions pushed into the heap must not reshuffle
        the library's own timers."""
        if when is None:
            raise TypeError("when cannot be None")
        self._check_closed()
        return self.call_at_ranked(when, 0, callback, *args, context=context)

    # -- driving ---------------------------------------------------------------------
    def call_at_ranked(self, when, rank, callback, *args, context=None, fifo=False):
        """fifo=True: keep creation order among equal deadlines whatever the tie-break variant (the simulated network
        uses it: two datagrams sent in one instant over the same path must not overtake each other unless a fault
        window says so - reordering would look like a reboot to the receiver)"""
        import heapq

        h = RankedHandle(when, callback, args, self, rank, context, fifo=fifo)
        heapq.heappush(self._scheduled, h)
        h._scheduled = True
        return h

    def run_until(self, t_end):
        """run until virtual time t_end has been reached and that instant is drained"""

        def mark():
            self._stop_when_idle = True

        h = self.call_at_ranked(t_end, 2, mark)
        try:
            self.run_forever()
        finally:
            h.cancel()
            self._stop_when_idle = False

    def run_until_quiet(self, t_max):
        """run until nothing is scheduled any more or t_max"""
        self.run_until(t_max)

    def task_failures(self):
        out = []
        for t in self.tasks:
            if t.done() and not t.cancelled():
                exc = t.exception()
                if exc is not None:
                    out.append((type(exc).__name__, repr(exc)))
        return out

    def shutdown(self):
        # cancel everything still pending so nothing leaks into the next scenario
        for t in self.tasks:
            if not t.done():
                t.cancel()
        self.idle_hooks.clear()
        self.max_iterations = self.iteration + 10000
        try:
            self._scheduled.clear()
            self.run_until(self._vnow)
        except Exception:
            pass
        self.pending_after_shutdown = [t for t in self.tasks if not t.done()]
        self._ready.clear()
        self._scheduled.clear()
        self.close()


class Draws:
    """stand-in for the ``random`` module inside someip.sd: records and forces draws.  ``uniform(a, b)`` (what the library
    uses today) and ``random()`` are forced to the scenario's fraction; anything else falls through to a seeded generator,
    so a library that computes its delays with another call of the random module still runs"""

    def __init__(self, rng, mode="rand", forced=None):
        self.rng = rng
        self.mode = mode
        self.forced = list(forced or [])
        self.log = []

    def _fraction(self):
        if self.forced:
            return self.forced.pop(0)
        if self.mode == "min":
            return 0.0
        if self.mode == "max":
            return 1.0
        if self.mode == "mid":
            return 0.5
        if isinstance(self.mode, (tuple, list)) and self.mode[0] == "const":
            return self.mode[1]
        return self.rng.randrange(0, 17) / 16.0

    def uniform(self, a, b):
        f = self._fraction()
        v = a + (b - a) * f
        self.log.append((a, b, f, v))
        return v

    def random(self):
        f = self._fraction()
        f = min(f, 1.0 - 2.0 ** -53)
        self.log.append((0.0, 1.0, f, f))
        return f

    def __getattr__(self, name):
        return getattr(self.rng, name)


class LogRecorder(logging.Handler):
    def __init__(self):
        super().__init__(level=logging.NOTSET)
        self.records = []

    def emit(self, record):
        if record.levelno < logging.WARNING:
            # reached only while the library's loggers are enabled for DEBUG (see rotate_loglevel): format the record as a
            # real handler would, keep nothing unless formatting itself fails
            try:
                record.getMessage()
            except Exception as exc:
                self.records.append((record.name, record.levelname, type(exc).__name__, f"<unformattable log record: {exc!r}> {record.msg!r}"[:400]))
            return
        et = None
        if record.exc_info and record.exc_info is not True:
            ei = record.exc_info
            if isinstance(ei, BaseException):
                et = type(ei).__name__
            elif isinstance(ei, tuple) and ei[0] is not None:
                et = ei[0].__name__
        try:
            msg = record.getMessage()
        except Exception as exc:  # a broken log call is itself worth seeing
            msg = f"<unformattable log record: {exc!r}>"
            et = et or type(exc).__name__
        if et is not None and isinstance(record.exc_info, tuple) and record.exc_info[1] is not None:
            msg += " :: " + repr(record.exc_info[1])
        self.records.append((record.name, record.levelname, et, msg[:400]))

    def unexpected(self, allowed=("ParseError", "IncompleteReadError")):
        return [r for r in self.records if r[2] is not None and r[2] not in allowed]


_installed = {}


def install_logging():
    """one recorder on the 'someip' logger tree; returns it (records list is reset)"""
    rec = _installed.get("rec")
    if rec is None:
        rec = LogRecorder()
        lg = logging.getLogger("someip")
        lg.addHandler(rec)
        lg.setLevel(logging.WARNING)
        lg.propagate = False
        logging.getLogger("asyncio").setLevel(logging.CRITICAL)
        warnings.simplefilter("ignore")
        _installed["rec"] = rec
    rec.records = []
    return rec


_LOG_COUNT = [0]


LOG_STATS = {"debug": 0, "warning": 0}


def set_loglevel(debug):
    logging.getLogger("someip").setLevel(logging.DEBUG if debug else logging.WARNING)
    LOG_STATS["debug" if debug else "warning"] += 1
    return debug


def rotate_loglevel():
    """An application may run the library with its loggers at WARNING (what the repository's tests pin) or enabled for DEBUG
    (what its command-line tools do): every other scenario of a process runs with DEBUG, so that log statements - their
    arguments, guards and formatting - are executed too.  PV_LOGLEVEL=debug|warning forces one."""
    import os as _os

    forced = _os.environ.get("PV_LOGLEVEL")
    _LOG_COUNT[0] += 1
    debug = (forced == "debug") if forced in ("debug", "warning") else _LOG_COUNT[0] % 2 == 1
    return set_loglevel(debug)


class Harness:
    """one scenario: fresh loop, forced draws, log recorder"""

    def __init__(self, rng, draw_mode="rand", forced=None, max_iterations=200000, debug_log=None):
        import someip.sd

        self.loop = VLoop()
        # order of timers with exactly equal deadlines: FIFO by default; the thorough tier also explores LIFO and a seeded
        # random order on some shards (PV_TIEBREAK is set per shard by the runner and recorded in replay files)
        import os as _os
        import random as _random

        tb = _os.environ.get("PV_TIEBREAK", "fifo")
        if tb in ("lifo", "random"):
            self.loop.tiebreak = tb
            self.loop.tiebreak_rng = _random.Random(rng.random() if hasattr(rng, "random") else 0)
        self.loop.max_iterations = max_iterations
        asyncio.set_event_loop(self.loop)
        self.draws = Draws(rng, draw_mode, forced)
        someip.sd.random = self.draws
        self.log = install_logging()
        self.debug_log = rotate_loglevel() if debug_log is None else set_loglevel(debug_log)
        self._actions = {}

    # scripted actions: grouped per (instant, rank), executed in script order.
    # rank BEFORE: ahead of every library timer due at that instant (the production order
    # for received datagrams); rank AFTER: behind them, still in the same loop iteration.
    # hops=k: the action runs k loop iterations later, still at the same virtual instant (it
    # re-posts itself with call_soon k times) - application code that reacts "a little later".
    def at(self, t, fn, *args, rank=BEFORE, hops=0):
        key = (t, rank)
        lst = self._actions.get(key)
        if lst is None:
            lst = self._actions[key] = []
            self.loop.call_at_ranked(t, rank, self._fire, key)
        lst.append((fn, args, hops))

    def _fire(self, key):
        for fn, args, hops in self._actions.pop(key, ()):
            if hops:
                self.loop.call_soon(self._hop, fn, args, hops - 1)
            else:
                fn(*args)

    def _hop(self, fn, args, hops):
        if hops:
            self.loop.call_soon(self._hop, fn, args, hops - 1)
        else:
            fn(*args)

    def run(self, t_end):
        self.loop.run_until(t_end)

    def problems(self, allowed_logged=("ParseError", "IncompleteReadError")):
        """exceptions nobody is allowed to see: loop handler, failed tasks, logged"""
        out = []
        for e in self.loop.loop_exceptions:
            out.append(("loop_exception_handler",) + tuple(e))
        for e in self.loop.task_failures():
            out.append(("task_failed",) + tuple(e))
        for r in self.log.unexpected(allowed_logged):
            out.append(("logged_exception",) + tuple(r))
        if self.loop.budget_exceeded:
            out.append(("iteration_budget_exceeded", self.loop.iteration))
        return out

    def close(self):
        import random
        import someip.sd

        someip.sd.random = random
        self.loop.shutdown()
        asyncio.set_event_loop(None)
