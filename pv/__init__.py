"""pv - runtime-monitoring framework for afflux/pysomeip (see /verif/DESIGN.md).

Importing this package puts the repository under test first on sys.path.  The tree is
``$PV_REPO`` (default ``/repo``); ``PV_REPO`` exists only so that the self-test can point
the same checks at a scratch copy with a deliberate break applied.  Registered checks
never set it: they always run against /repo's current working tree.
"""
import os
import sys

REPO = os.environ.get("PV_REPO", "/repo")
SRC = os.path.join(REPO, "src")
VERIF = os.path.dirname(os.path.dirname(os.path.abspath(__file__)))

if SRC not in sys.path[:1]:
    sys.path.insert(0, SRC)
sys.dont_write_bytecode = True


def lib():
    """import the library under test and make sure it really comes from REPO"""
    import someip
    import someip.header
    import someip.config
    import someip.sd
    import someip.service
    import someip.utils

    f = os.path.realpath(someip.__file__)
    if not f.startswith(os.path.realpath(SRC) + os.sep):
        raise RuntimeError(f"someip imported from {f}, expected under {SRC}")
    return someip
