"""System-level workload shared by several checks: 2-4 complete SD stacks ("mesh") on one virtual loop and one simulated
network, each offering some services, watching some filters and auto-subscribing to some eventgroups, driven by a seeded
script of lifecycle actions (graceful stop/start, crash/restart), run-time API calls (watch/unwatch, announce/stop
announcing) and network fault windows (loss, duplication, reordering).

Nothing here is a model of the library: every stack is the real ServiceDiscoveryProtocol with its real announcer, discovery
client and subscriber.  The monitors sit at the boundaries only:

  wire      every datagram handed to transport.sendto        -> codec agreement (C01/C02/C20), session ids (C08)
  delivery  every datagram handed to datagram_received        -> reference reboot detector vs reboot_detected calls (C07)
  queue     every call of the public announcer.queue_send     -> exactly-once / order / routing / latency vs wire (C15)
  listeners ClientServiceListener / ServerServiceListener      -> alternation (C05/C06), convergence after quiescence (C04)

A check asks for the monitors it needs (`want`) and gets violations labelled `mesh:<mechanism>`; counters say how much each
monitor saw.  Finite TTLs only (the infinite-TTL limitation recorded for C04 needs no second witness)."""
from __future__ import annotations

import collections
import ipaddress
import itertools
import random

from pv import net, refwire
from pv.vloop import Harness, EPS, BEFORE, AFTER, RES

# (service id, instance, major, minor, eventgroups)
SERVICES = [(0xB101, 1, 1, 0, (1, 2)), (0xB101, 2, 1, 3, (1,)), (0xB102, 1, 2, 0, (5,)), (0xB103, 7, 3, 9, (2,))]
ADDRS = [("10.0.20.1", 30490), ("10.0.20.1", 30491), ("10.0.20.2", 30490), ("10.0.20.3", 30490)]  # two stacks share a host
ANY = (0xFFFF, 0xFF, 0xFFFFFFFF)
RR = (2.0 ** -6, 2.0 ** -4)


def fmatch(f, s):
    return f[0] == s[0] and all(a == w or a == b for a, b, w in zip(f[1:4], s[1:4], ANY))


def random_config(rng):
    a_ttl = rng.choice((2, 3, 4, 6))
    cyc = rng.choice([c for c in (0.25, 0.5, 1.0, 2.0, 3.0) if c < a_ttl])
    s_ttl = rng.choice((2, 3, 5, 6))
    refresh = rng.choice([r for r in (0.5, 1.0, 2.0, 3.0, 4.0) if r < s_ttl])
    lo = rng.choice((0.0, 0.0, 0.125, 0.25))
    hi = lo + rng.choice((0.0, 0.125, 0.5, 1.0))
    return dict(a_ttl=a_ttl, cyc=cyc, s_ttl=s_ttl, refresh=refresh, init=(lo, hi), reps=rng.randrange(0, 4),
                base=rng.choice((2.0 ** -5, 2.0 ** -4, 2.0 ** -3, 2.0 ** -2)), ct=rng.choice((0.0, 2.0 ** -8, 2.0 ** -6)),
                lat=rng.choice((0.0, 0.0, 2.0 ** -10, 2.0 ** -7)))


def bound(cfg):
    return (max(cfg["a_ttl"], cfg["s_ttl"]) + max(cfg["cyc"], cfg["refresh"]) + cfg["init"][1]
            + sum(cfg["base"] * 2 ** i for i in range(cfg["reps"])) + RR[1] + 3 * cfg["ct"] + 2 * cfg["lat"] + 1.0)


def random_layout(rng):
    """who offers / watches / subscribes what"""
    n = rng.choice((2, 3, 3, 4))
    nodes = [dict(addr=ADDRS[i], offers=[], watches=[], egs=[]) for i in range(n)]
    for si in range(len(SERVICES)):
        if rng.random() < 0.75:
            nodes[rng.randrange(n)]["offers"].append(si)
    if not any(nd["offers"] for nd in nodes):
        nodes[0]["offers"].append(0)
    for nd in nodes:
        for _ in range(rng.choice((0, 1, 1, 2))):
            s = SERVICES[rng.randrange(len(SERVICES))]
            f = (s[0], s[1] if rng.random() < 0.5 else 0xFFFF, s[2] if rng.random() < 0.6 else 0xFF,
                 s[3] if rng.random() < 0.3 else 0xFFFFFFFF)
            if f not in nd["watches"]:
                nd["watches"].append(f)
        for _ in range(rng.choice((0, 1, 1, 2))):
            s = SERVICES[rng.randrange(len(SERVICES))]
            wild = rng.random() < 0.5
            eg = (s[0], 0xFFFF if wild else s[1], 0xFF if wild else s[2], rng.choice(s[4]) if rng.random() < 0.85 else 9)
            if eg not in nd["egs"]:
                nd["egs"].append(eg)
    if not any(nd["watches"] or nd["egs"] for nd in nodes):
        nodes[-1]["watches"].append((SERVICES[0][0], 0xFFFF, 0xFF, 0xFFFFFFFF))
    return nodes


class Node:
    def __init__(self, world, idx, spec):
        self.world, self.idx, self.spec = world, idx, spec
        self.addr = spec["addr"]
        self.prot = self.tr = None
        self.alive = self.started = False
        self.incarnation = 0
        self.boot_time = None
        self.cl_events = {}   # filter -> [(t, kind, (svc, source))]
        self.sv_events = {}   # service index -> [(t, kind, (source, egid, counter, endpoints))]
        self.transports = []  # every transport this node ever had
        self.instances = {}
        self.watching = set()
        self.announced = set()

    # ------------------------------------------------------------------ life cycle
    def boot(self):
        import someip.config as C
        import someip.header as H
        import someip.sd as S

        w = self.world
        cfg = w.cfg
        tm = net.timings(INITIAL_DELAY_MIN=cfg["init"][0], INITIAL_DELAY_MAX=cfg["init"][1], REQUEST_RESPONSE_DELAY_MIN=RR[0],
                         REQUEST_RESPONSE_DELAY_MAX=RR[1], REPETITIONS_MAX=cfg["reps"], REPETITIONS_BASE_DELAY=cfg["base"],
                         CYCLIC_OFFER_DELAY=cfg["cyc"], FIND_TTL=3, ANNOUNCE_TTL=cfg["a_ttl"], SUBSCRIBE_TTL=cfg["s_ttl"],
                         SUBSCRIBE_REFRESH_INTERVAL=cfg["refresh"], SEND_COLLECTION_TIMEOUT=cfg["ct"])
        self.tm = tm
        self.incarnation += 1
        self.boot_time = w.h.loop.time()
        self.cl_events = {}
        w.listener_history[(self.idx, self.incarnation)] = self.cl_events
        self.periods = {}
        self.sv_events = {si: [] for si in self.spec["offers"]}
        self.prot, self.tr = net.make_sd(w.h.loop, self.addr, timings=tm, net=w.net)
        self.transports.append((self.incarnation, self.tr))
        self.listeners = {}
        self.instances = {}
        self.watching = set()
        self.announced = set()
        for mon in w.monitors:
            mon.on_boot(self)
        for si in self.spec["offers"]:
            self.announce(si)
        for f in self.spec["watches"]:
            self.watch(f)
        for eg in self.spec["egs"]:
            e = C.Eventgroup(service_id=eg[0], instance_id=eg[1], major_version=eg[2], eventgroup_id=eg[3],
                             sockname=(self.addr[0], 4000 + self.idx), protocol=H.L4Protocols.UDP)
            self.prot.discovery.find_subscribe_eventgroup(e)
        self.prot.start()
        self.alive = self.started = True

    def _ev(self, table, key, kind, item, first, mine):
        w = self.world
        if self.incarnation != mine or not self.alive:
            return  # leftover timer of a crashed incarnation (artefact of emulating a crash inside one process)
        hist = [e for e in table[key] if e[2] == item]
        table[key].append((w.h.loop.time(), kind, item))
        w.stats["alternation_events"] += 1
        who = "discovery" if first == "offered" else "subscription"
        if not hist and kind != first:
            w.fail(who + "-listener-history-does-not-begin-with-" + first, self, dict(key=key, item=item))
        elif hist and hist[-1][1] == kind:
            w.fail(who + "-listener-history-not-alternating:" + kind + "-twice", self,
                   dict(key=key, item=item, history=[(e[0], e[1]) for e in hist][-6:]))

    def announce(self, si):
        import someip.config as C
        import someip.header as H
        import someip.sd as S

        if si in self.announced:
            return
        node = self
        mine = self.incarnation
        s = SERVICES[si]
        if si not in self.instances:
            class L(S.ServerServiceListener):
                def client_subscribed(self, sub, source):
                    item = (source, sub.id, sub.counter, tuple(sorted((str(e.address), e.port) for e in sub.endpoints)))
                    node._ev(node.sv_events, si, "subscribed", item, "subscribed", mine)

                def client_unsubscribed(self, sub, source):
                    item = (source, sub.id, sub.counter, tuple(sorted((str(e.address), e.port) for e in sub.endpoints)))
                    node._ev(node.sv_events, si, "unsubscribed", item, "subscribed", mine)

            # another endpoint in every incarnation: an offer must carry what is configured now
            port = 3000 + si + 100 * (self.incarnation % 5)
            proto = (H.L4Protocols.UDP, H.L4Protocols.TCP)[self.incarnation % 2]
            opt = H.IPv4EndpointOption(address=ipaddress.IPv4Address(self.addr[0]), l4proto=proto, port=port)
            self.offer_cfg = getattr(self, "offer_cfg", {})
            self.offer_cfg[(s[0], s[1])] = (s[2], s[3], (self.addr[0], port, int(proto)))
            svc = C.Service(s[0], s[1], s[2], s[3], options_1=(opt,), eventgroups=frozenset(s[4]))
            self.instances[si] = S.ServiceInstance(svc, L(), self.prot.announcer, self.tm)
        self.prot.announcer.announce_service(self.instances[si])
        self.announced.add(si)

    def unannounce(self, si):
        if si in self.announced:
            self.prot.announcer.stop_announce_service(self.instances[si])
            self.announced.discard(si)

    def watch(self, f):
        import someip.config as C
        import someip.sd as S

        if f in self.watching:
            return
        node = self
        mine = self.incarnation
        if f not in self.listeners:
            class L(S.ClientServiceListener):
                def service_offered(self, service, source):
                    item = ((service.service_id, service.instance_id, service.major_version, service.minor_version), source)
                    node._ev(node.cl_events, (f, node.periods[f]), "offered", item, "offered", mine)

                def service_stopped(self, service, source):
                    item = ((service.service_id, service.instance_id, service.major_version, service.minor_version), source)
                    node._ev(node.cl_events, (f, node.periods[f]), "stopped", item, "offered", mine)

            self.listeners[f] = L()
        self.periods[f] = self.periods.get(f, 0) + 1
        self.cl_events[(f, self.periods[f])] = []
        self.world.reg_log[(self.idx, self.incarnation, f, self.periods[f])] = [self.world.h.loop.time(), None]
        self.watching.add(f)
        self.prot.discovery.watch_service(net.client_filter(C, f), self.listeners[f])

    def unwatch(self, f):
        import someip.config as C

        if f in self.watching:
            self.watching.discard(f)
            self.world.reg_log[(self.idx, self.incarnation, f, self.periods[f])][1] = self.world.h.loop.time()
            self.prot.discovery.stop_watch_service(net.client_filter(C, f), self.listeners[f])

    def graceful_stop(self):
        if self.alive and self.started:
            self.prot.stop()
            self.started = False

    def graceful_start(self):
        if self.alive and not self.started:
            self.prot.start()
            self.started = True

    def crash(self):
        if not self.alive:
            return
        self.tr.blackhole = True
        self.world.net.detach(self.addr)
        try:
            self.prot.stop()  # frees its timers; unobservable: the transport is a black hole
        except Exception as exc:  # noqa: B902
            self.world.raised.append(("stop-after-crash", repr(exc)))
        self.alive = self.started = False
        self.prot = None

    def restart(self):
        if not self.alive:
            self.boot()


# ---------------------------------------------------------------------------------------------- monitors
class Monitor:
    name = "?"

    def __init__(self, world):
        self.w = world

    def on_boot(self, node):
        pass

    def finish(self):
        pass


class RebootMonitor(Monitor):
    """C07 in the system: reference detector per receiving incarnation fed with exactly the datagrams handed to
    datagram_received, compared with the calls of the protocol's reboot_detected during that very call"""
    name = "reboot"

    def on_boot(self, node):
        w = self.w
        prot = node.prot
        state = {}
        calls = []
        orig_rd = prot.reboot_detected
        orig_dg = prot.datagram_received
        fan = {"discovery": [], "subscriber": [], "announcer": []}
        for part in fan:
            comp = getattr(prot, part)
            o = comp.reboot_detected

            def wrapped(addr, _o=o, _l=fan[part]):
                _l.append(addr)
                return _o(addr)
            comp.reboot_detected = wrapped

        def reboot_detected(addr):
            calls.append(addr)
            return orig_rd(addr)

        def datagram_received(data, addr, multicast):
            expected = []
            try:
                msgs = refwire.parse_sd_datagram(bytes(data))
            except refwire.RefError:
                msgs = None
            if msgs is not None:
                for sd in msgs:
                    flag = bool(sd["flags"] & 0x80)
                    old = state.get((addr, multicast))
                    state[(addr, multicast)] = (flag, sd["sess"])
                    if old is not None and flag and (not old[0] or sd["sess"] <= old[1]):
                        expected.append(addr)
            before = len(calls)
            r = orig_dg(data, addr, multicast)
            got = calls[before:]
            w.stats["reboot_messages_judged"] += len(msgs or ())
            w.stats["reboot_detections_expected"] += len(expected)
            if msgs is not None and got != expected:
                w.fail("reboot-detection-differs-from-reference:" + ("missed" if len(got) < len(expected) else "spurious"), node,
                       dict(sender=addr, multicast=multicast, expected=len(expected), signalled=len(got),
                            sessions=[(bool(sd["flags"] & 0x80), sd["sess"]) for sd in msgs]))
            if expected:
                w.pending_fanout.append((node, node.incarnation, fan, {k: len(v) for k, v in fan.items()}, len(expected), addr))
            return r

        prot.reboot_detected = reboot_detected
        prot.datagram_received = datagram_received

    def finish(self):
        w = self.w
        # every detection reaches the three parts exactly once: totals per incarnation
        per = {}
        for node, inc, fan, before, n, addr in w.pending_fanout:
            per.setdefault((node.idx, inc), [node, fan, 0])[2] += n
        for (idx, inc), (node, fan, n) in per.items():
            for part, lst in fan.items():
                w.stats["reboot_fanout_checks"] += 1
                if len(lst) != n and not w.crashed_incarnations.get((idx, inc)):
                    w.fail("reboot-fan-out-count-differs", node, dict(part=part, detections=n, delivered=len(lst)))


class WireMonitor(Monitor):
    """C08 + codec agreement on everything any stack ever handed to its transport"""
    name = "wire"

    def finish(self):
        import someip.header as H

        w = self.w
        for node in w.nodes:
            for inc, tr in node.transports:
                per_dst = collections.defaultdict(list)
                for t, it, data, addr in tr.sent:
                    w.stats["wire_datagrams"] += 1
                    try:
                        msgs = refwire.parse_sd_datagram(data)
                    except refwire.RefError as exc:
                        w.fail("transmitted-datagram-is-not-well-formed-sd", node, dict(t=t, exc=repr(exc), data=data[:80]))
                        continue
                    # the library's own decoder must read its bytes, and what it read must survive encode -> decode
                    try:
                        rest = data
                        while rest:
                            m, rest2 = H.SOMEIPHeader.parse(rest)
                            consumed = rest[:len(rest) - len(rest2)]
                            sd, tail = H.SOMEIPSDHeader.parse(m.payload)
                            again, tail2 = H.SOMEIPSDHeader.parse(sd.build())
                            if bytes(m.build()) != bytes(consumed) or tail or tail2 or again != sd:
                                w.fail("own-transmission-does-not-survive-decode-encode-decode", node, dict(t=t, data=data[:80]))
                            w.stats["wire_roundtrips"] += 1
                            rest = rest2
                    except Exception as exc:  # noqa: B902
                        w.fail("own-transmission-rejected-by-own-decoder", node, dict(t=t, exc=repr(exc), data=data[:80]))
                    for sd in msgs:
                        per_dst[addr].append((t, sd["sess"], bool(sd["flags"] & 0x80), len(sd["entries"])))
                for dst, seq in per_dst.items():
                    exp, flag = 1, True
                    for t, sess, fl, nent in seq:
                        w.stats["session_ids_checked"] += 1
                        if nent == 0:
                            w.fail("empty-sd-message-transmitted", node, dict(t=t, dst=dst))
                        if sess != exp or fl != flag:
                            w.fail("session-id-gap-or-repeat" if sess != exp else "reboot-flag-wrong", node,
                                   dict(t=t, dst=dst, incarnation=inc, expected=(flag, exp), got=(fl, sess)))
                            break
                        exp += 1
                        if exp > 0xFFFF:
                            exp, flag = 1, False


class QueueMonitor(Monitor):
    """C15 in the system: public queue_send calls vs what reaches the transport, per destination"""
    name = "queue"

    def on_boot(self, node):
        w = self.w
        ann = node.prot.announcer
        orig = ann.queue_send
        qlog = []
        node.qlogs = getattr(node, "qlogs", [])
        node.qlogs.append((node.incarnation, node.tr, qlog))

        def queue_send(entry, remote=None):
            qlog.append((w.h.loop.time(), remote, (int(entry.sd_type), entry.service_id, entry.instance_id, entry.major_version, entry.ttl,
                                                   entry.minver_or_counter)))
            return orig(entry, remote=remote)

        ann.queue_send = queue_send

    def finish(self):
        w = self.w
        ct = w.cfg["ct"]
        for node in w.nodes:
            for inc, tr, qlog in getattr(node, "qlogs", []):
                end = w.incarnation_end.get((node.idx, inc))
                wire = collections.defaultdict(list)
                for t, it, data, addr in tr.sent:
                    try:
                        msgs = refwire.parse_sd_datagram(data)
                    except refwire.RefError:
                        continue
                    for sd in msgs:
                        for e in sd["entries"]:
                            if e["type"] in (1, 7):  # offers / stop-offers / (n)acks are what the announcer queues
                                wire[addr].append((t, (e["type"], e["sid"], e["iid"], e["maj"], e["ttl"], e["val"])))
                per_q = collections.defaultdict(list)
                for t, remote, key in qlog:
                    per_q[remote].append((t, key))
                for dst, q in per_q.items():
                    sent = wire.get(net.MCAST if dst is None else dst, [])
                    i = 0
                    for t, key in q:
                        w.stats["queue_entries_checked"] += 1
                        if end is not None and t >= end - ct - 4 * RES:
                            break  # queued in the last window before this incarnation was stopped / crashed: may be cut off
                        if t > w.t_end - ct - 4 * RES:
                            break
                        if i >= len(sent) or sent[i][1] != key:
                            w.fail("queued-entry-missing-or-out-of-order-on-the-wire", node,
                                   dict(dst=dst, queued_at=t, entry=key, next_on_wire=sent[i] if i < len(sent) else None, incarnation=inc))
                            break
                        if not (t - 4 * RES <= sent[i][0] <= t + ct + 4 * RES):
                            w.fail("queued-entry-leaves-outside-its-collection-window", node,
                                   dict(dst=dst, queued_at=t, sent_at=sent[i][0], timeout=ct, entry=key))
                            break
                        i += 1
                    else:
                        if i < len(sent) and end is None:
                            w.fail("entry-on-the-wire-that-was-never-queued", node, dict(dst=dst, entry=sent[i]))


class AckMonitor(Monitor):
    """C11 in the system: every Subscribe entry (TTL > 0) that reaches a running stack by unicast is answered, during that
    very datagram_received call, by exactly one SubscribeAck entry queued for the sender - positive exactly when one of the
    announced, running instances matches and declares the eventgroup (the mesh's listeners accept everything)"""
    name = "ack"

    def on_boot(self, node):
        w = self.w
        prot = node.prot
        ann = prot.announcer
        orig_q = ann.queue_send
        orig_dg = prot.datagram_received
        acks = []

        def queue_send(entry, remote=None):
            if int(entry.sd_type) == 7:
                acks.append((remote, entry.service_id, entry.instance_id, entry.major_version, entry.minver_or_counter, entry.ttl))
            return orig_q(entry, remote=remote)

        def datagram_received(data, addr, multicast):
            before = len(acks)
            up = node.alive and node.started
            announced = set(node.announced)
            r = orig_dg(data, addr, multicast)
            if multicast or not up:
                return r
            try:
                msgs = refwire.parse_sd_datagram(bytes(data))
            except refwire.RefError:
                return r
            want = collections.Counter()
            optional = collections.Counter()  # a StopSubscribe nobody is responsible for may or may not be refused
            for sd in msgs:
                if not sd["flags"] & 0x40:
                    continue
                for e in sd["entries"]:
                    if e["type"] != 6:
                        continue
                    egid = e["val"] & 0xFFFF
                    pos = any(SERVICES[si][0] == e["sid"] and e["iid"] in (0xFFFF, SERVICES[si][1]) and e["maj"] in (0xFF, SERVICES[si][2])
                              and egid in SERVICES[si][4] for si in announced)
                    if e["ttl"] > 0:
                        want[(addr, e["sid"], e["iid"], e["maj"], e["val"], e["ttl"] if pos else 0)] += 1
                    elif not pos:
                        optional[(addr, e["sid"], e["iid"], e["maj"], e["val"], 0)] += 1
            got = collections.Counter(acks[before:])
            w.stats["subscribes_judged"] += sum(want.values())
            w.stats["positive_acks_expected"] += sum(n for k, n in want.items() if k[5])
            if (want - got) or ((got - want) - optional):
                w.fail("subscribe-acknowledgement-differs", node,
                       dict(sender=addr, expected=sorted(want.elements()), queued=sorted(got.elements())))
            return r

        ann.queue_send = queue_send
        prot.datagram_received = datagram_received


class OfferLifeMonitor(Monitor):
    """C10 in the system, at the public queue_send boundary: while an instance is stopped (its stack stopped gracefully or
    the instance withdrawn) no offer with TTL > 0 is queued for it to anyone, and a stop after at least one offer queues
    exactly one StopOffer"""
    name = "offerlife"

    def on_boot(self, node):
        w = self.w
        ann = node.prot.announcer
        orig = ann.queue_send
        log = []
        node.offer_logs = getattr(node, "offer_logs", [])
        node.offer_logs.append((node.incarnation, log))

        def queue_send(entry, remote=None):
            if int(entry.sd_type) == 1:
                log.append((w.h.loop.time(), remote, (entry.service_id, entry.instance_id), entry.ttl))
                cfg = getattr(node, "offer_cfg", {}).get((entry.service_id, entry.instance_id))
                if cfg is not None and entry.ttl > 0:
                    w.stats["offer_contents_checked"] += 1
                    got = [(str(o.address), o.port, int(o.l4proto)) for o in entry.options_1]
                    if (entry.major_version, entry.minver_or_counter, got, tuple(entry.options_2), entry.ttl) != \
                            (cfg[0], cfg[1], [cfg[2]], (), w.cfg["a_ttl"]):
                        w.fail("offer-content-differs-from-configuration", node,
                               dict(service=(entry.service_id, entry.instance_id), configured=cfg, ttl=w.cfg["a_ttl"],
                                    queued=(entry.major_version, entry.minver_or_counter, got, entry.ttl)))
            return orig(entry, remote=remote)

        ann.queue_send = queue_send

    def finish(self):
        w = self.w
        for node in w.nodes:
            for inc, log in getattr(node, "offer_logs", []):
                life = [x for x in w.lifelog if x[1] == node.idx and x[2] == inc]
                for si in node.spec["offers"]:
                    s = SERVICES[si]
                    # up/down intervals of this instance in this incarnation
                    up, since, ivs = False, None, []
                    stack_up, announced = False, False
                    for t, _i, _inc, what, arg in life:
                        if what == "boot":
                            stack_up, announced = True, True
                        elif what == "stop":
                            stack_up = False
                        elif what == "start":
                            stack_up = True
                        elif what == "crash":
                            stack_up = None
                        elif what == "unannounce" and arg == si:
                            announced = False
                        elif what == "announce" and arg == si:
                            announced = True
                        now_up = bool(stack_up) and announced
                        if stack_up is None:
                            if up:
                                ivs.append((since, t, "crashed"))
                            up = False
                            break
                        if now_up != up:
                            if up:
                                ivs.append((since, t, "stopped"))
                            since, up = t, now_up
                            if not up:
                                down_since = t
                    if up:
                        ivs.append((since, w.t_end + 1.0, "running"))
                    mine = [x for x in log if x[2] == (s[0], s[1])]
                    # on the wire: once the StopOffer of a graceful stop has left, no live offer for the instance leaves - to
                    # anyone - before the instance is up again
                    tr = next((tr for i2, tr in node.transports if i2 == inc), None)
                    stop_t = None
                    for t, _it, data, addr in (tr.sent if tr is not None else ()):
                        try:
                            msgs = refwire.parse_sd_datagram(data)
                        except refwire.RefError:
                            continue
                        for e in (e for sd in msgs for e in sd["entries"] if e["type"] == 1 and (e["sid"], e["iid"]) == (s[0], s[1])):
                            if e["ttl"] == 0:
                                stop_t = t
                                w.stats["stopoffers_followed_on_the_wire"] += 1
                            elif stop_t is not None:
                                if any(stop_t - w.cfg["ct"] - 4 * RES <= a <= t + 4 * RES for a, _b, _h in ivs):
                                    stop_t = None
                                else:
                                    w.fail("live-offer-on-the-wire-after-the-stopoffer", node,
                                           dict(service=s[:2], stopoffer_sent_at=stop_t, offer_sent_at=t, dst=addr))
                                    stop_t = None
                    for k, (t0, t1, how) in enumerate(ivs):
                        nxt = ivs[k + 1][0] if k + 1 < len(ivs) else w.t_end + 1.0
                        w.stats["offer_intervals_checked"] += 1
                        if how != "stopped":
                            continue
                        if nxt - t1 <= 4 * EPS:
                            continue  # stopped and started again within one instant: attribution of that instant's entries is open
                        offered = [x for x in mine if t0 - 4 * RES <= x[0] <= t1 + 4 * RES and x[3] > 0 and x[1] is None]
                        stops = [x for x in mine if t1 - 4 * RES <= x[0] < nxt - 4 * RES and x[3] == 0]
                        late = [x for x in mine if t1 + 4 * RES < x[0] < nxt - 4 * RES and x[3] > 0]
                        w.stats["stopped_intervals_checked"] += 1
                        if late:
                            w.fail("offer-with-nonzero-ttl-queued-while-the-instance-is-stopped", node,
                                   dict(service=s[:2], stopped_at=t1, next_start=nxt, offer=late[0]))
                        before_stop = [x for x in offered if x[0] < t1 - 4 * RES]
                        if before_stop and len(stops) != 1:
                            w.fail("stop-after-offering-queues-%d-stopoffers" % len(stops), node,
                                   dict(service=s[:2], up_since=t0, stopped_at=t1, stopoffers=stops[:3]))
                        elif len(stops) > 1:
                            w.fail("stop-queues-%d-stopoffers" % len(stops), node, dict(service=s[:2], stopped_at=t1, stopoffers=stops[:3]))


class FindMonitor(Monitor):
    """C13 in the system, on the wire: a FindService entry for a watched filter is not sent while that filter's own
    listener has been told 'offered' for a matching service and not yet 'stopped' (same-instant changes are not judged)"""
    name = "finds"

    def finish(self):
        w = self.w
        for node in w.nodes:
            for inc, tr in node.transports:
                hist = w.listener_history.get((node.idx, inc), {})
                for t, it, data, addr in tr.sent:
                    try:
                        msgs = refwire.parse_sd_datagram(data)
                    except refwire.RefError:
                        continue
                    for sd in msgs:
                        for e in sd["entries"]:
                            if e["type"] != 0:
                                continue
                            w.stats["find_entries_checked"] += 1
                            f = (e["sid"], e["iid"], e["maj"], e["val"])
                            if addr != net.MCAST:
                                w.fail("find-not-sent-to-the-multicast-group", node, dict(t=t, dst=addr, filter=f))
                            if e["ttl"] != 3 or e["n1"] or e["n2"]:
                                w.fail("find-entry-ttl-or-options-wrong", node, dict(t=t, entry=e))
                            # the registration period of this filter that is open at t (none, or one that opened or closed
                            # in this very instant: not judged)
                            cur = None
                            for (ni, ninc, ff, period), (t0, t1) in w.reg_log.items():
                                if (ni, ninc, ff) == (node.idx, inc, f) and t0 < t - 4 * RES and (t1 is None or t1 > t + 4 * RES):
                                    cur = period
                            if cur is None:
                                continue
                            latest, recent = {}, False
                            for te, kind, item in hist.get((f, cur), []):
                                if te > t + 4 * RES:
                                    break
                                if te >= t - 4 * RES:
                                    recent = True
                                latest[item] = kind
                            if recent:
                                continue
                            w.stats["finds_judged_against_listener_knowledge"] += 1
                            known = [item for item, kind in latest.items() if kind == "offered"]
                            if known:
                                w.fail("find-sent-for-a-filter-whose-listener-says-offered", node, dict(t=t, filter=f, known=known[:3]))


class FindAnswerMonitor(Monitor):
    """C12 in the system: a FindService entry delivered to a running stack is answered by exactly one unicast offer per
    matching instance that is up and has already queued its first multicast offer - by nobody else; finds that meet an
    instance within an instant of a lifecycle change or of its first offer are not judged"""
    name = "findanswer"

    def on_boot(self, node):
        w = self.w
        prot = node.prot
        ann = prot.announcer
        orig_q = ann.queue_send
        orig_dg = prot.datagram_received
        rec = dict(node=node, inc=node.incarnation, finds=[], offers=[])
        w.findlogs.append(rec)

        def queue_send(entry, remote=None):
            if int(entry.sd_type) == 1 and entry.ttl > 0:
                rec["offers"].append((w.h.loop.time(), remote, (entry.service_id, entry.instance_id)))
            return orig_q(entry, remote=remote)

        def datagram_received(data, addr, multicast):
            if node.alive:
                try:
                    msgs = refwire.parse_sd_datagram(bytes(data))
                except refwire.RefError:
                    msgs = []
                for sd in msgs:
                    for e in sd["entries"]:
                        if e["type"] == 0:
                            rec["finds"].append((w.h.loop.time(), addr, multicast, (e["sid"], e["iid"], e["maj"], e["val"])))
            return orig_dg(data, addr, multicast)

        ann.queue_send = queue_send
        prot.datagram_received = datagram_received

    def finish(self):
        w = self.w
        tol = 4 * RES
        for rec in w.findlogs:
            node, inc = rec["node"], rec["inc"]
            life = [x for x in w.lifelog if x[1] == node.idx and x[2] == inc]
            for si in node.spec["offers"]:
                s = SERVICES[si]
                key = (s[0], s[1])
                # instants at which this instance's up/down state changed, and its up intervals
                changes, ups = [], []
                stack_up = announced = False
                up, since = False, None
                for t, _i, _inc, what, arg in life:
                    if what == "boot":
                        stack_up, announced = True, True
                    elif what in ("stop", "crash"):
                        stack_up = False
                    elif what == "start":
                        stack_up = True
                    elif what == "unannounce" and arg == si:
                        announced = False
                    elif what == "announce" and arg == si:
                        announced = True
                    else:
                        continue
                    now_up = stack_up and announced
                    if now_up != up:
                        changes.append(t)
                        if up:
                            ups.append((since, t))
                        since, up = t, now_up
                    elif what in ("stop", "start", "crash", "announce", "unannounce"):
                        changes.append(t)
                if up:
                    ups.append((since, w.t_end + 10.0))
                mc_offers = [x[0] for x in rec["offers"] if x[1] is None and x[2] == key]
                by_src = collections.defaultdict(list)
                for x in rec["offers"]:
                    if x[1] is not None and x[2] == key:
                        by_src[x[1]].append(x[0])
                exps = collections.defaultdict(list)
                for t, src, mc, f in rec["finds"]:
                    if not fmatch(f, s):
                        continue
                    hi = t + (RR[1] if mc else 0.0)
                    lo = t + (RR[0] if mc else 0.0)
                    iv = next(((a, b) for a, b in ups if a < t - tol and b > hi + tol), None)
                    near = any(t - tol <= c <= hi + tol for c in changes)
                    if iv is not None and not near:
                        first = next((o for o in mc_offers if o > iv[0] - tol), None)
                        if first is not None and first < t - tol:
                            status = "must"
                        elif first is None or first > hi + tol:
                            status = "never"
                        else:
                            status = "maybe"
                    elif near or any(a - tol <= hi and b + tol >= t for a, b in ups):
                        status = "maybe"
                    else:
                        status = "never"
                    if hi > w.t_end - tol:
                        status = "maybe" if status == "must" else status
                    exps[src].append((lo, hi, status))
                for src in set(exps) | set(by_src):
                    answers = sorted(by_src.get(src, []))
                    used = [False] * len(answers)
                    todo = exps.get(src, [])
                    w.stats["find_deliveries_judged"] += len(todo)
                    # points to intervals: earliest deadline first is optimal; the finds that must be answered go first
                    for wanted in ("must", "maybe"):
                        for lo, hi, status in sorted((e for e in todo if e[2] == wanted), key=lambda e: (e[1], e[0])):
                            k = next((i for i, a in enumerate(answers) if not used[i] and lo - tol <= a <= hi + tol), None)
                            if k is not None:
                                used[k] = True
                                w.stats["find_answers_matched"] += 1
                            elif status == "must":
                                w.fail("find-not-answered-by-a-ready-matching-instance", node,
                                       dict(service=s[:4], requester=src, window=(lo, hi), answers=answers[:8],
                                            finds=[(a, b, st) for a, b, st in sorted(todo)][:8]))
                    live = [e for e in todo if e[2] != "never"]
                    for i, a in enumerate(answers):
                        if not any(lo - tol <= a <= hi + tol for lo, hi, _st in live) or len(answers) > len(live):
                            w.fail("unicast-offer-that-no-find-explains", node,
                                   dict(service=s[:4], to=src, at=a, answers=answers[:8], finds=[(lo, hi, st) for lo, hi, st in sorted(todo)][:8]))
                            break


MONITORS = {"reboot": RebootMonitor, "wire": WireMonitor, "queue": QueueMonitor, "ack": AckMonitor, "offerlife": OfferLifeMonitor,
            "finds": FindMonitor, "findanswer": FindAnswerMonitor}


# ---------------------------------------------------------------------------------------------- world
class World:
    def __init__(self, cfg, layout, seed, want):
        self.cfg = cfg
        self.h = Harness(random.Random(seed), draw_mode="rand", max_iterations=900000)
        self.net = net.SimNet(self.h.loop, random.Random("net" + str(seed)), latency=cfg["lat"])
        self.stats = collections.Counter()
        self.violations = []
        self.raised = []
        self.pending_fanout = []
        self.crashed_incarnations = {}
        self.incarnation_end = {}
        self.t_end = 0.0
        self.lifelog = []  # (t, node index, incarnation, what, arg)
        self.findlogs = []
        self.reg_log = {}  # (node index, incarnation, filter, period) -> [watched at, unwatched at or None]
        self.listener_history = {}  # (node index, incarnation) -> {(filter, period): [(t, kind, (service, source))]}
        self.monitors = [MONITORS[m](self) for m in want if m in MONITORS]
        self.nodes = [Node(self, i, spec) for i, spec in enumerate(layout)]

    def fail(self, mech, node, detail):
        if len(self.violations) < 4:
            d = dict(detail)
            d.update(node=node.addr, incarnation=node.incarnation, t=self.h.loop.time())
            self.violations.append(("mesh:" + mech, d))

    def act(self, a):
        try:
            k = a["kind"]
            if k == "boot":
                for nd in self.nodes:
                    nd.boot()
                    self.lifelog.append((self.h.loop.time(), nd.idx, nd.incarnation, "boot", None))
                return
            if k == "fault":
                self.net.faults.append(a["fault"])
                return
            nd = self.nodes[a["who"]]
            now = self.h.loop.time()
            if k == "stop":
                if nd.alive and nd.started:
                    self.incarnation_end.setdefault((nd.idx, nd.incarnation), now)
                    self.lifelog.append((now, nd.idx, nd.incarnation, "stop", None))
                nd.graceful_stop()
            elif k == "start":
                if nd.alive and not nd.started:
                    self.lifelog.append((now, nd.idx, nd.incarnation, "start", None))
                nd.graceful_start()
            elif k == "crash":
                if nd.alive:
                    self.crashed_incarnations[(nd.idx, nd.incarnation)] = True
                    self.incarnation_end.setdefault((nd.idx, nd.incarnation), now)
                    self.lifelog.append((now, nd.idx, nd.incarnation, "crash", None))
                nd.crash()
            elif k == "restart":
                if not nd.alive:
                    nd.restart()
                    self.lifelog.append((now, nd.idx, nd.incarnation, "boot", None))
            elif nd.alive:
                if k == "watch":
                    nd.watch(a["f"])
                elif k == "unwatch":
                    nd.unwatch(a["f"])
                elif k == "announce":
                    if a["si"] not in nd.announced:
                        self.lifelog.append((now, nd.idx, nd.incarnation, "announce", a["si"]))
                    nd.announce(a["si"])
                elif k == "unannounce":
                    if a["si"] in nd.announced:
                        self.lifelog.append((now, nd.idx, nd.incarnation, "unannounce", a["si"]))
                    nd.unannounce(a["si"])
        except Exception as exc:  # noqa: B902
            self.raised.append((a, repr(exc)))


def random_script(rng, cfg, layout):
    """-> actions [(t, rank, action)], t_last, description"""
    n = len(layout)
    acts, descr = [], []
    t = 0.0
    t_last = 0.0
    state = ["up"] * n
    grid = 16
    for _ in range(rng.choice((0, 1, 2, 2, 3, 4, 6, 8))):
        r = rng.random()
        # times on a dyadic grid coincide with timer deadlines of the dyadic timing configurations
        t = t + rng.randrange(1, 4 * grid) / grid
        pl = rng.choice(("at", "at", "at:after", "-eps", "+eps", "-res", "off"))
        tt, rank = {"at": (t, BEFORE), "at:after": (t, AFTER), "-eps": (t - EPS, BEFORE), "+eps": (t + EPS, BEFORE),
                    "-res": (t - RES / 2, BEFORE), "off": (t + 2.0 ** -9, BEFORE)}[pl]
        who = rng.randrange(n)
        if state[who] != "up":
            back = "start" if state[who] == "stopped" else "restart"
            acts.append((tt, rank, dict(kind=back, who=who)))
            state[who] = "up"
            descr.append((back, who, pl))
        elif r < 0.2:
            gap = rng.choice((2.0 ** -6, 0.125, 0.5, 1.0, 2.5))
            acts += [(tt, rank, dict(kind="stop", who=who)), (tt + gap, BEFORE, dict(kind="start", who=who))]
            descr.append(("stop-start", who, pl))
            t = tt + gap
        elif r < 0.4:
            gap = rng.choice((2.0 ** -6, 0.125, 0.5, 1.0, 2.5))
            acts += [(tt, rank, dict(kind="crash", who=who)), (tt + gap, BEFORE, dict(kind="restart", who=who))]
            descr.append(("crash-restart", who, pl))
            t = tt + gap
        elif r < 0.47:
            acts.append((tt, rank, dict(kind="stop", who=who)))
            state[who] = "stopped"
            descr.append(("stop", who, pl))
        elif r < 0.54:
            acts.append((tt, rank, dict(kind="crash", who=who)))
            state[who] = "crashed"
            descr.append(("crash", who, pl))
        elif r < 0.72:
            length = rng.choice((0.25, 1.0, 2.5, 6.0))
            kind = rng.choice(("loss", "dup", "jitter"))
            if kind == "loss":
                f = dict(t0=tt, t1=tt + length, loss=rng.choice((1.0, 0.5)))
            elif kind == "dup":
                f = dict(t0=tt, t1=tt + length, dup=rng.choice((1.0, 0.5)), dup_delays=(0.0, 2.0 ** -7, 0.25, 1.0))
            else:
                f = dict(t0=tt, t1=tt + length, jitter=(0.0, 2.0 ** -8, 2.0 ** -5, 0.25, 0.75))
            acts.append((tt, rank, dict(kind="fault", fault=f)))
            descr.append((kind, round(length, 3), pl))
            t_last = max(t_last, tt + length + 1.0)
        else:
            spec = layout[who]
            choices = []
            if spec["watches"]:
                choices.append("watch")
            if spec["offers"]:
                choices.append("announce")
            if not choices:
                continue
            if rng.choice(choices) == "watch":
                f = rng.choice(spec["watches"])
                gap = rng.choice((0.0, 2.0 ** -6, 0.5, 2.0))
                acts += [(tt, rank, dict(kind="unwatch", who=who, f=f)), (tt + gap, rank if gap == 0 else BEFORE, dict(kind="watch", who=who, f=f))]
                descr.append(("unwatch-watch", who, pl, gap))
                t = tt + gap
            else:
                si = rng.choice(spec["offers"])
                gap = rng.choice((0.0, 2.0 ** -6, 0.5, 2.0))
                acts += [(tt, rank, dict(kind="unannounce", who=who, si=si)), (tt + gap, rank if gap == 0 else BEFORE, dict(kind="announce", who=who, si=si))]
                descr.append(("unannounce-announce", who, pl, gap))
                t = tt + gap
        t = max(t, tt)
        t_last = max(t_last, t)
    return acts, t_last, descr


def run_case(ctx, seedkey, want, replay, prefix="mesh_", claim=("mesh:",)):
    """one seeded mesh scenario under the monitors in `want` (+ listeners' alternation and, with 'converge', C04's oracle)"""
    rng = random.Random(seedkey)
    cfg = random_config(rng)
    layout = random_layout(rng)
    acts, t_last, descr = random_script(rng, cfg, layout)
    w = World(cfg, layout, seedkey, want)
    w.h.at(0.0, w.act, dict(kind="boot"))
    for t, rank, a in sorted(acts, key=lambda x: (x[0], x[1])):
        w.h.at(t, w.act, a, rank=rank)
    B = bound(cfg)
    w.h.run(t_last + 2.0 ** -4)
    t_quiet = max(t_last, w.net.last_delivery)
    t_eval = t_quiet + B
    w.t_end = t_eval
    w.h.run(t_eval)
    st = w.stats
    st["scenarios"] += 1
    st["nodes"] += len(layout)
    st["datagrams_exchanged"] += len(w.net.log)
    st["script_actions"] += len(acts)
    if "converge" in want:
        converge(w, t_eval, t_quiet, B)
    for mon in w.monitors:
        mon.finish()
    problems = w.h.problems()
    w.h.close()
    detail0 = dict(config=cfg, layout=[dict(nd, addr=list(nd["addr"])) for nd in layout], script=descr[:12])
    for mech, d in w.violations:
        if not mech.startswith(tuple(claim)):
            st["reports_that_belong_to_another_property"] += 1
            continue
        d.update(detail0)
        ctx.violation(mech, d, replay)
    for a, e in w.raised:
        ctx.violation("mesh:lifecycle-or-api-call-raises", dict(action=a, exc=e, **detail0), replay)
    for p in problems:
        ctx.violation("mesh:unexpected-exception-during-run", dict(problem=p, **detail0), replay)
    for k, v in st.items():
        ctx.count(prefix + k, v)
    return (len(layout), tuple(d[0] for d in descr), cfg["ct"] > 0, cfg["lat"] > 0), bool(acts)


def converge(w, t_eval, t_quiet, B):
    """C04's bounded-progress oracle generalised to the mesh: after the quiet period every running watcher says 'offered' for
    exactly the matching services of running offerers, and every running offerer holds a subscription of every running
    auto-subscriber whose eventgroup it declares"""
    for W in w.nodes:
        if not (W.alive and W.started):
            continue
        for f in W.spec["watches"]:
            if f not in W.watching:
                continue
            ev = W.cl_events.get((f, W.periods[f]), [])
            latest = {}
            for t, kind, item in ev:
                latest[item] = kind
            said = {item for item, kind in latest.items() if kind == "offered"}
            want = set()
            for O in w.nodes:
                if O is W or not (O.alive and O.started):
                    continue
                for si in O.spec["offers"]:
                    s = SERVICES[si]
                    if si in O.announced and fmatch(f, s):
                        want.add(((s[0], s[1], s[2], s[3]), O.addr))
            w.stats["final_checks_watcher"] += 1
            w.stats["final_offered_expected"] += len(want)
            if said != want:
                w.fail("watcher-does-not-converge:" + ("offered-service-not-reported" if want - said else "says-offered-but-nobody-offers"),
                       W, dict(filter=f, missing=sorted(want - said), surplus=sorted(said - want), evaluated_at=t_eval, quiet_since=t_quiet,
                               bound=B, history=[(t, k, i) for t, k, i in ev][-8:]))
    for O in w.nodes:
        if not O.alive:
            continue
        for si in O.spec["offers"]:
            s = SERVICES[si]
            latest = {}
            for t, kind, item in O.sv_events.get(si, []):
                latest[item] = kind
            said = {(item[0], item[1]) for item, kind in latest.items() if kind == "subscribed"}
            want = set()
            if O.started and si in O.announced:
                for W in w.nodes:
                    if W is O or not (W.alive and W.started):
                        continue
                    for eg in W.spec["egs"]:
                        if eg[0] == s[0] and eg[1] in (0xFFFF, s[1]) and eg[2] in (0xFF, s[2]) and eg[3] in s[4]:
                            want.add((W.addr, eg[3]))
            w.stats["final_checks_offerer"] += 1
            w.stats["final_subscriptions_expected"] += len(want)
            if said != want:
                w.fail("offerer-does-not-converge:" + ("running-subscriber-not-subscribed" if want - said else "says-subscribed-but-should-not"),
                       O, dict(service=s[:4], missing=sorted(want - said), surplus=sorted(said - want), evaluated_at=t_eval,
                               quiet_since=t_quiet, bound=B))


# ---------------------------------------------------------------------------------------------- use from a property check
def shard_specs(cfg, tier, seed):
    k, n = cfg.get(tier, cfg["quick"])
    return [dict(shard=9000 + i, seed=seed, mode="mesh", n=n) for i in range(k)]


def shard_run(spec, ctx, prop, cfg):
    base = f"mesh/{prop}/{spec['seed']}/{spec['shard']}"
    for i in range(spec["n"]):
        key, nt = run_case(ctx, f"{base}/{i}", cfg["want"], dict(kind="mesh", key=f"{base}/{i}"), claim=cfg["claim"])
        ctx.case(("mesh",) + key, nt)


def replay_case(doc, ctx, cfg):
    run_case(ctx, doc["key"], cfg["want"], doc, claim=cfg["claim"])
    ctx.case(("replay",), True)
