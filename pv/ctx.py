"""Per-shard result collector (what a worker hands back to the runner)."""
from __future__ import annotations

import collections
import hashlib
import json

MAX_SAMPLES = 6
MAX_VIOLATIONS = 12


def jsonable(x):
    if isinstance(x, (bytes, bytearray)):
        return "hex:" + bytes(x).hex()
    if isinstance(x, dict):
        return {str(k): jsonable(v) for k, v in x.items()}
    if isinstance(x, (list, tuple, set, frozenset)):
        return [jsonable(v) for v in x]
    if isinstance(x, (str, int, float, bool)) or x is None:
        return x
    return repr(x)


def hkey(key) -> str:
    return hashlib.blake2b(repr(key).encode(), digest_size=8).hexdigest()


class Ctx:
    def __init__(self, prop, spec):
        self.prop = prop
        self.spec = spec
        self.evaluations = 0
        self.distinct = set()
        self.samples = []
        self.counters = collections.Counter()
        self.sets = collections.defaultdict(set)
        self.violations = []
        self.n_violations = 0
        self.inconclusive = []

    def case(self, key, nontrivial=True, sample=None):
        self.evaluations += 1
        if nontrivial:
            self.distinct.add(hkey(key))
        if sample is not None and len(self.samples) < MAX_SAMPLES:
            self.samples.append(jsonable(sample))

    def count(self, name, n=1):
        self.counters[name] += n

    def note(self, setname, value):
        s = self.sets[setname]
        if len(s) < 4096:
            s.add(value if isinstance(value, str) else repr(value))

    def violation(self, mechanism, detail, replay=None):
        self.n_violations += 1
        if len(self.violations) < MAX_VIOLATIONS:
            self.violations.append(
                dict(mechanism=mechanism, detail=jsonable(detail), replay=jsonable(replay))
            )

    def dump(self):
        return dict(
            prop=self.prop,
            spec=self.spec,
            evaluations=self.evaluations,
            distinct=sorted(self.distinct),
            samples=self.samples,
            counters=dict(self.counters),
            sets={k: sorted(v) for k, v in self.sets.items()},
            violations=self.violations,
            n_violations=self.n_violations,
            inconclusive=self.inconclusive,
        )


def unhex(x):
    """inverse of jsonable for bytes inside replay documents"""
    if isinstance(x, str) and x.startswith("hex:"):
        return bytes.fromhex(x[4:])
    if isinstance(x, list):
        return [unhex(v) for v in x]
    if isinstance(x, dict):
        return {k: unhex(v) for k, v in x.items()}
    return x


def dumps(x):
    return json.dumps(jsonable(x), sort_keys=True)
