"""setup_cmd: imports the framework against /repo and self-tests the virtual loop's
placement classes (d-eps, d-delta, d+delta, d+eps).  No installs, no network, nothing
outside /verif is written."""
from __future__ import annotations

import asyncio
import importlib
import os
import sys

import pv


def placement_test():
    from pv.vloop import VLoop, DELTA, EPS

    res = {}
    for name, off in (("d-eps", -EPS), ("d-delta", -DELTA), ("d+delta", DELTA), ("d+eps", EPS)):
        loop = VLoop()
        asyncio.set_event_loop(loop)
        log = []
        d = 3.0
        loop.call_at(d, lambda: log.append(("timer", loop.iteration)))
        loop.call_at(d + off, lambda: log.append(("ext", loop.iteration)))
        loop.run_until(10.0)
        loop.shutdown()
        asyncio.set_event_loop(None)
        res[name] = log
    ok = (
        [x[0] for x in res["d-eps"]] == ["ext", "timer"] and res["d-eps"][0][1] < res["d-eps"][1][1]
        and [x[0] for x in res["d-delta"]] == ["ext", "timer"] and res["d-delta"][0][1] == res["d-delta"][1][1]
        and [x[0] for x in res["d+delta"]] == ["timer", "ext"] and res["d+delta"][0][1] == res["d+delta"][1][1]
        and [x[0] for x in res["d+eps"]] == ["timer", "ext"] and res["d+eps"][0][1] < res["d+eps"][1][1]
    )
    return ok, res


def main():
    pv.lib()
    n = 0
    for fn in sorted(os.listdir(os.path.join(pv.VERIF, "pv", "props"))):
        if fn.startswith("c") and fn.endswith(".py"):
            importlib.import_module("pv.props." + fn[:-3])
            n += 1
    ok, res = placement_test()
    print(f"pv selfcheck: library from {pv.SRC}, {n} property modules import, placement classes ok={ok}")
    if not ok:
        print(res)
        return 1
    os.makedirs(os.path.join(pv.VERIF, "evidence"), exist_ok=True)
    os.makedirs(os.path.join(pv.VERIF, "replays"), exist_ok=True)
    return 0


if __name__ == "__main__":
    sys.exit(main())
