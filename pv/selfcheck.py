"""setup_cmd: imports the framework against /repo and self-tests the virtual loop's
placement classes (d-eps, d-delta, d+delta, d+eps).  No installs, no network, nothing
outside /verif is written."""
from __future__ import annotations

import asyncio
import importlib
import os
import sys

import pv


def placement_test():
    from pv.vloop import VLoop, EPS, BEFORE, AFTER

    res = {}
    for name, off, rank in (("d-eps", -EPS, BEFORE), ("d:before", 0.0, BEFORE), ("d:after", 0.0, AFTER), ("d+eps", EPS, BEFORE)):
        loop = VLoop()
        asyncio.set_event_loop(loop)
        log = []
        d = 3.0
        # several ordinary timers with the same deadline, pushed around the scripted action
        loop.call_at(d, lambda: log.append(("timer", loop.iteration, loop.time())))
        loop.call_at_ranked(d + off, rank, lambda: log.append(("ext", loop.iteration, loop.time())))
        loop.call_at(d, lambda: log.append(("timer", loop.iteration, loop.time())))
        loop.call_at(d, lambda: log.append(("timer", loop.iteration, loop.time())))
        loop.run_until(10.0)
        loop.shutdown()
        asyncio.set_event_loop(None)
        res[name] = log
    kinds = {k: [x[0] for x in v] for k, v in res.items()}
    its = {k: [x[1] for x in v] for k, v in res.items()}
    ok = (
        kinds["d-eps"] == ["ext", "timer", "timer", "timer"] and its["d-eps"][0] < its["d-eps"][1]
        and kinds["d:before"] == ["ext", "timer", "timer", "timer"] and len(set(its["d:before"])) == 1
        and kinds["d:after"] == ["timer", "timer", "timer", "ext"] and len(set(its["d:after"])) == 1
        and kinds["d+eps"] == ["timer", "timer", "timer", "ext"] and its["d+eps"][2] < its["d+eps"][3]
        and all(x[2] == 3.0 for x in res["d:before"] + res["d:after"])
    )
    return ok, res


def main():
    pv.lib()
    n = 0
    for fn in sorted(os.listdir(os.path.join(pv.VERIF, "pv", "props"))):
        if fn.startswith("c") and fn.endswith(".py"):
            importlib.import_module("pv.props." + fn[:-3])
            n += 1
    ok, res = placement_test()
    print(f"pv selfcheck: library from {pv.SRC}, {n} property modules import, placement classes ok={ok}")
    if not ok:
        print(res)
        return 1
    os.makedirs(os.path.join(pv.VERIF, "evidence"), exist_ok=True)
    os.makedirs(os.path.join(pv.VERIF, "replays"), exist_ok=True)
    return 0


if __name__ == "__main__":
    sys.exit(main())
