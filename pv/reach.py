"""Reach tracker: which statement lines of the library ran during a workload.

sys.monitoring LINE events, each location disabled after its first hit (near-zero cost).
Evidence of reach only - never an oracle.
"""
from __future__ import annotations

import json
import os
import re
import sys

TOOL = 4
_hits = set()
_import_mark = None
_src = None


def start(srcdir):
    global _src
    _src = os.path.realpath(srcdir) + os.sep
    mon = sys.monitoring
    try:
        mon.use_tool_id(TOOL, "pv-reach")
    except ValueError:
        return

    def on_line(code, lineno):
        fn = code.co_filename
        if fn.startswith(_src):
            _hits.add((fn[len(_src):], lineno))
        return mon.DISABLE

    mon.register_callback(TOOL, mon.events.LINE, on_line)
    mon.set_events(TOOL, mon.events.LINE)


def mark_imported():
    global _import_mark
    _import_mark = set(_hits)


def runtime_hits():
    base = _import_mark or set()
    return sorted(_hits - base)


def _code_lines(code, out):
    for _s, _e, ln in code.co_lines():
        if ln is not None:
            out.add(ln)
    for c in code.co_consts:
        if hasattr(c, "co_lines"):
            _code_lines(c, out)


def body_lines(path):
    """statement lines inside function bodies of a source file (def/class header lines
    and module-level statements excluded: they only run at import)"""
    with open(path) as f:
        src = f.read()
    top = compile(src, path, "exec")
    out = set()

    def walk(code, inside):
        if inside:
            first = code.co_firstlineno
            for _s, _e, ln in code.co_lines():
                if ln is not None and ln != first:
                    out.add(ln)
        for c in code.co_consts:
            if hasattr(c, "co_lines"):
                # CO_OPTIMIZED is set for functions/lambdas/comprehensions, not for
                # class bodies or the module
                walk(c, inside or bool(c.co_flags & 0x1))

    walk(top, False)
    return out


def anchors_for(prop_id, verif_dir):
    """[(mechanism name, relpath below src/, [(lo, hi)...])] from properties.jsonl"""
    res = []
    with open(os.path.join(verif_dir, "properties.jsonl")) as f:
        for line in f:
            p = json.loads(line)
            if p["id"] != prop_id:
                continue
            for m in p["anchors"]["mechanism"]:
                w = m.get("where", "")
                mm = re.match(r"src/(\S+?):([\d,\-]+)$", w)
                if not mm:
                    continue
                ranges = []
                for part in mm.group(2).split(","):
                    if "-" in part:
                        lo, hi = part.split("-")
                    else:
                        lo = hi = part
                    ranges.append((int(lo), int(hi)))
                res.append((m["name"], mm.group(1), ranges))
    return res


def line_map(srcdir, rel):
    """properties.jsonl anchors use line numbers of the pinned commit; map them to the
    working tree with the hunks of `git diff <root commit>` (identity when git says nothing)"""
    import subprocess

    repo = os.path.dirname(os.path.realpath(srcdir))
    hunks = []
    try:
        root = subprocess.run(["git", "-C", repo, "rev-list", "--max-parents=0", "HEAD"], capture_output=True, text=True,
                              timeout=20).stdout.split()[0]
        out = subprocess.run(["git", "-C", repo, "diff", "-U0", root, "--", os.path.join("src", rel)], capture_output=True,
                             text=True, timeout=20).stdout
        for m in re.finditer(r"^@@ -(\d+)(?:,(\d+))? \+(\d+)(?:,(\d+))? @@", out, re.M):
            a, b, c, d = int(m.group(1)), int(m.group(2) or 1), int(m.group(3)), int(m.group(4) or 1)
            hunks.append((a, b, c, d))
    except Exception:
        hunks = []

    def f(line):
        delta = 0
        for a, b, c, d in hunks:
            end = a + b - 1 if b else a
            if end < line:
                delta += d - b
        return line + delta

    return f


def table(prop_id, verif_dir, srcdir, hits):
    """per anchored mechanism: body lines hit / body lines present in its range"""
    hitset = {(a, b) for a, b in hits}
    cache = {}
    rows = []
    maps = {}
    for name, rel, ranges in anchors_for(prop_id, verif_dir):
        path = os.path.join(srcdir, rel)
        if rel not in maps:
            maps[rel] = line_map(srcdir, rel)
        ranges = [(maps[rel](lo), maps[rel](hi)) for lo, hi in ranges]
        if rel not in cache:
            try:
                cache[rel] = body_lines(path)
            except OSError:
                cache[rel] = set()
        lines = {ln for ln in cache[rel] if any(lo <= ln <= hi for lo, hi in ranges)}
        key = rel[len("someip/"):] if rel.startswith("someip/") else rel
        got = {ln for ln in lines if (rel, ln) in hitset}
        rows.append(dict(mechanism=name, where=f"{key}:{ranges}", lines=len(lines), hit=len(got)))
    return rows
