"""Regenerates /verif/MANIFEST.json from the property modules that exist.

    /venv/bin/python -B -m pv.manifest_gen
"""
from __future__ import annotations

import importlib
import json
import os

import pv

BASELINE_OFF = ("cd /repo && env -u AFFLUX_PYSOMEIP_VERIF /venv/bin/python -m pytest -ra -q "
                "-p no:cacheprovider --timeout=900 --continue-on-collection-errors")

ALL = [f"C{i:02d}" for i in range(1, 21)]


def main():
    checks = []
    na = []
    for pid in ALL:
        path = os.path.join(pv.VERIF, "pv", "props", pid.lower() + ".py")
        if not os.path.exists(path):
            na.append(dict(property_id=pid, reason="check not built yet (work in progress; see DESIGN.md section 4)"))
            continue
        mod = importlib.import_module(f"pv.props.{pid.lower()}")
        checks.append(dict(
            property_id=pid,
            quick_cmd=f"./check {pid} --tier quick",
            thorough_cmd=f"./check {pid} --tier thorough",
            evidence_file=f"evidence/{pid}.json",
            replay_cmd_template=f"./check {pid} --replay {{path}}",
            engine="pv",
            level_claimed=dict(category=mod.LEVEL, text=mod.LEVEL_TEXT, design_ref=f"DESIGN.md section 4, {pid}"),
            level_note=mod.LEVEL_NOTE,
            technique=mod.TECHNIQUE + ("; plus the same boundary monitors on a system-level workload of 2-4 complete SD stacks "
                                       "(pv/mesh.py)" if getattr(mod, "MESH", None) else "")
            + "; the library's loggers alternate between WARNING and DEBUG from scenario to scenario",
        ))
    man = dict(
        version=1,
        setup_cmd="/venv/bin/python -B -m pv.selfcheck",
        hooks=dict(
            guard="AFFLUX_PYSOMEIP_VERIF",
            enable="no hooks in /repo: all monitors are harness-side wrappers on public boundaries; the guard name is reserved and unused",
            baseline_off_cmd=BASELINE_OFF,
            source_commits=[],
            add_only=True,
        ),
        engines=[dict(
            name="pv", path="pv/",
            serves_properties=[c["property_id"] for c in checks],
            kind_free_text=("runtime monitoring: the real library runs on a virtual-time asyncio loop under "
                            "boundary recorders; oracles are reference models / an independent codec over the "
                            "recorded histories; seeded generators, schedule and fault enumeration around timer "
                            "deadlines; sys.monitoring for reach and step counting"),
        )],
        checks=checks,
        notes=("Verdicts are three-valued: exit 0 held on what was observed, exit 1 VIOLATION with a replay file, "
               "exit 2 INCONCLUSIVE (a deciding monitor was not reached / watchdog). Known findings: "
               "known_findings.json. Seeded breaks used to validate the monitors: seeded/."),
        not_applicable=na,
    )
    with open(os.path.join(pv.VERIF, "MANIFEST.json"), "w") as f:
        json.dump(man, f, indent=1)
        f.write("\n")
    print(f"{len(checks)} checks, {len(na)} not yet claimed")


if __name__ == "__main__":
    main()
