"""Worker process: runs one shard of one property and writes its result as JSON."""
from __future__ import annotations

import faulthandler
import importlib
import json
import os
import sys
import time
import traceback


def main(argv):
    prop, specfile, outfile = argv[1:4]
    with open(specfile) as f:
        spec = json.load(f)
    faulthandler.enable()
    wd = spec.get("_watchdog_s")
    if wd:
        faulthandler.dump_traceback_later(wd, exit=True)

    import pv
    from pv import reach, ctx as ctxmod

    if not os.environ.get("PV_NO_REACH"):
        reach.start(pv.SRC)
    pv.lib()
    reach.mark_imported()
    mod = importlib.import_module(f"pv.props.{prop.lower()}")
    ctx = ctxmod.Ctx(prop, spec)
    t0 = time.time()
    status = "ok"
    try:
        rp = spec.get("_replay")
        if isinstance(rp, dict) and rp.get("kind") == "mesh":
            from pv import mesh
            mesh.replay_case(rp, ctx, mod.MESH)
        elif rp is None and spec.get("mode") == "mesh":
            from pv import mesh
            mesh.shard_run(spec, ctx, prop, mod.MESH)
        elif rp is not None and not (isinstance(rp, dict) and rp.get("kind") == "whole-shard"):
            mod.replay(ctxmod.unhex(rp), ctx)
            if ctx.n_violations == 0 and "shard" in spec and not os.environ.get("PV_REPLAY_SINGLE"):
                # the recorded case alone is silent: the violation may depend on what the process did before it
                # (caches, memoised objects, session state) - repeat the whole shard the case came from
                ctx.count("replay_fell_back_to_whole_shard")
                mod.run(spec, ctx)
        else:
            mod.run(spec, ctx)
    except BaseException as exc:
        status = "crashed"
        tb = traceback.extract_tb(exc.__traceback__)
        inner = tb[-1] if tb else None
        lib_frames = [f for f in tb if os.path.abspath(f.filename).startswith(os.path.abspath(pv.SRC) + os.sep)]
        if isinstance(exc, Exception) and not isinstance(exc, MemoryError) and inner is not None and lib_frames \
                and os.path.abspath(inner.filename).startswith(os.path.abspath(pv.SRC) + os.sep):
            # raised inside the library and never caught by it nor expected by the check: every check guards the
            # exceptions its property allows, so this is behaviour the reference model does not have (a verdict,
            # replayable by re-running the shard); anything raised by the harness itself stays inconclusive
            status = "ok"
            ctx.violation("library-exception-escaped-into-the-harness:" + type(exc).__name__,
                          dict(exception=repr(exc)[:300], raised_in=f"{os.path.basename(inner.filename)}:{inner.name}",
                               entered_library_at=f"{os.path.basename(lib_frames[0].filename)}:{lib_frames[0].name}",
                               traceback=traceback.format_exc()[-1500:]),
                          dict(kind="whole-shard"))
            ctx.inconclusive.append("shard aborted by the exception above (counters incomplete)")
        else:
            ctx.inconclusive.append("worker crashed: " + traceback.format_exc()[-3000:])
    from pv import vloop
    if vloop.LOG_STATS["debug"] or vloop.LOG_STATS["warning"]:
        ctx.count("scenarios_run_with_library_loggers_at_debug", vloop.LOG_STATS["debug"])
        ctx.count("scenarios_run_with_library_loggers_at_warning", vloop.LOG_STATS["warning"])
    res = ctx.dump()
    res["status"] = status
    res["wall_s"] = time.time() - t0
    res["reach"] = reach.runtime_hits()
    tmp = outfile + ".tmp"
    with open(tmp, "w") as f:
        json.dump(res, f)
    os.replace(tmp, outfile)
    faulthandler.cancel_dump_traceback_later()


if __name__ == "__main__":
    main(sys.argv)
