"""Worker process: runs one shard of one property and writes its result as JSON."""
from __future__ import annotations

import faulthandler
import importlib
import json
import os
import sys
import time
import traceback


def main(argv):
    prop, specfile, outfile = argv[1:4]
    with open(specfile) as f:
        spec = json.load(f)
    faulthandler.enable()
    wd = spec.get("_watchdog_s")
    if wd:
        faulthandler.dump_traceback_later(wd, exit=True)

    import pv
    from pv import reach, ctx as ctxmod

    if not os.environ.get("PV_NO_REACH"):
        reach.start(pv.SRC)
    pv.lib()
    reach.mark_imported()
    mod = importlib.import_module(f"pv.props.{prop.lower()}")
    ctx = ctxmod.Ctx(prop, spec)
    t0 = time.time()
    status = "ok"
    try:
        if spec.get("_replay") is not None:
            mod.replay(ctxmod.unhex(spec["_replay"]), ctx)
        else:
            mod.run(spec, ctx)
    except BaseException:
        status = "crashed"
        ctx.inconclusive.append("worker crashed: " + traceback.format_exc()[-3000:])
    res = ctx.dump()
    res["status"] = status
    res["wall_s"] = time.time() - t0
    res["reach"] = reach.runtime_hits()
    tmp = outfile + ".tmp"
    with open(tmp, "w") as f:
        json.dump(res, f)
    os.replace(tmp, outfile)
    faulthandler.cancel_dump_traceback_later()


if __name__ == "__main__":
    main(sys.argv)
