"""Seeded, boundary-biased generators shared by the workloads."""
from __future__ import annotations

B8 = (0, 1, 2, 0x7F, 0x80, 0xFE, 0xFF)
B16 = (0, 1, 2, 0xFF, 0x100, 0x7FFF, 0x8000, 0x8100, 0xFFFE, 0xFFFF, 0xDEAD, 0xBEEF)
B24 = (0, 1, 2, 3, 0xFFFF, 0x10000, 0x7FFFFF, 0x800000, 0xFFFFFE, 0xFFFFFF)
B32 = (0, 1, 2, 0xFFFF, 0x10000, 0x7FFFFFFF, 0x80000000, 0xFFFFFFFE, 0xFFFFFFFF)
PAYLEN = (0, 1, 2, 7, 8, 9, 15, 16, 17, 255, 256, 257, 4095, 4096, 65527, 65528, 65535, 65536)


def pick(rng, bounds, width, p=0.45):
    """-> (value, class)  class = 'b<i>' for boundary i, 'r' for a random value"""
    if rng.random() < p:
        i = rng.randrange(len(bounds))
        return bounds[i], f"b{i}"
    return rng.randrange(1 << width), "r"


def u8(rng):
    return pick(rng, B8, 8)


def u16(rng):
    return pick(rng, B16, 16)


def u24(rng):
    return pick(rng, B24, 24)


def u32(rng):
    return pick(rng, B32, 32)


def paylen(rng, maxlen=65536 + 8):
    r = rng.random()
    if maxlen <= 300:
        return rng.randrange(0, maxlen + 1), "small"
    if r < 0.35:
        i = rng.randrange(len(PAYLEN))
        if PAYLEN[i] <= maxlen:
            return PAYLEN[i], f"b{i}"
    if r < 0.85:
        return rng.randrange(0, 300), "small"
    return rng.randrange(300, maxlen + 1), "large"


def rbytes(rng, n):
    return rng.getrandbits(8 * n).to_bytes(n, "big") if n else b""
