"""Boundary doubles: recording transport, simulated network, SD wire helpers.

Everything the library sends is observed here, at ``transport.sendto``; everything it
receives enters through ``datagram_received(data, addr, multicast)``.
"""
from __future__ import annotations

import asyncio

from pv import refwire

MCAST = ("224.224.224.245", 30490)
MCAST6 = ("ff02::224:245", 30490, 0, 0)


class RecTransport:
    """implements exactly what the library uses: sendto, get_extra_info('sockname'), close"""

    def __init__(self, loop, sockname, net=None, name=None):
        self.loop = loop
        self.sockname = sockname
        self.net = net
        self.name = name or repr(sockname)
        self.sent = []  # (time, iteration, data, addr)
        self.closed = False
        self.blackhole = False

    def sendto(self, data, addr=None):
        data = bytes(data)
        self.sent.append((self.loop.time(), self.loop.iteration, data, addr))
        if self.net is not None and not self.blackhole:
            self.net.route(self, data, addr)

    def get_extra_info(self, name, default=None):
        if name == "sockname":
            return self.sockname
        return default

    def close(self):
        self.closed = True

    def is_closing(self):
        return self.closed


class SimNet:
    """delivers datagrams between stacks on one virtual loop.

    nodes: address -> (protocol, transport).  A datagram to the multicast group goes to
    every other node with multicast=True; a unicast datagram to its addressee only.
    Fault windows (loss / duplication / extra delay) are applied per datagram.
    """

    def __init__(self, loop, rng, mcast=MCAST, latency=0.0):
        self.loop = loop
        self.rng = rng
        self.mcast = mcast
        self.latency = latency
        self.nodes = {}
        self.log = []  # (time, src, dst, multicast, data, fate)
        self.faults = []  # dict(t0, t1, loss, dup, jitter)
        self.in_flight = 0
        self.last_delivery = 0.0

    def attach(self, addr, protocol, transport):
        self.nodes[addr] = (protocol, transport)

    def detach(self, addr):
        self.nodes.pop(addr, None)

    def route(self, transport, data, addr):
        src = transport.sockname
        now = self.loop.time()
        if addr is None:
            addr = self.mcast
        multicast = addr == self.mcast
        targets = [a for a in self.nodes if a != src] if multicast else [addr]
        for dst in targets:
            copies = [self.latency]
            fate = "ok"
            for f in self.faults:
                if f["t0"] <= now < f["t1"]:
                    r = self.rng.random()
                    if r < f.get("loss", 0.0):
                        copies = []
                        fate = "lost"
                        break
                    if r < f.get("loss", 0.0) + f.get("dup", 0.0):
                        copies = copies + [self.latency + self.rng.choice(f.get("dup_delays", (0.0,)))]
                        fate = "dup"
                    j = f.get("jitter")
                    if j:
                        copies = [c + self.rng.choice(j) for c in copies]
                        if fate == "ok":
                            fate = "jitter"
            self.log.append((now, src, dst, multicast, data, fate))
            for lat in copies:
                self.in_flight += 1
                self.last_delivery = max(self.last_delivery, now + lat)
                if lat <= 0:
                    self.loop.call_soon(self._deliver, dst, data, src, multicast)
                elif hasattr(self.loop, "call_at_ranked"):
                    self.loop.call_at_ranked(now + lat, 0, self._deliver, dst, data, src, multicast, fifo=True)
                else:
                    self.loop.call_later(lat, self._deliver, dst, data, src, multicast)

    def _deliver(self, dst, data, src, multicast):
        self.in_flight -= 1
        node = self.nodes.get(dst)
        if node is None:
            return
        prot, tr = node
        if tr.blackhole:
            return
        prot.datagram_received(data, src, multicast)


# ---------------------------------------------------------------- SD wire helpers (reference side)
def entry(typ, sid, iid, maj, ttl, val, o1=(), o2=()):
    return dict(type=typ, sid=sid, iid=iid, maj=maj, ttl=ttl, val=val, o1=list(o1), o2=list(o2))


def offer(sid, iid, maj=1, minor=0, ttl=3, o1=(), o2=()):
    return entry(1, sid, iid, maj, ttl, minor, o1, o2)


def find(sid, iid=0xFFFF, maj=0xFF, minor=0xFFFFFFFF, ttl=3):
    return entry(0, sid, iid, maj, ttl, minor)


def subscribe(sid, iid, maj, egid, ttl=3, counter=0, o1=(), o2=()):
    return entry(6, sid, iid, maj, ttl, (counter << 16) | egid, o1, o2)


def with_riders(entries, k):
    """a peer that is server and client at once bundles what it has to say in both roles: the answer to a subscription of ours
    (SubscribeAck, or Nack = ttl 0) rides along in front of / behind the entries a check sends - by themselves such entries
    are only logged by the receiving stack.  k rotates the arrangement; messages without entries stay as they are"""
    if not entries or k % 4 == 0:
        return list(entries)
    nack = entry(0x07, 0x7E57, 1, 1, 0, 1)
    ack = entry(0x07, 0x7E57, 1, 1, 3, 1)
    return {1: [nack] + list(entries), 2: [ack] + list(entries), 3: [nack] + list(entries) + [ack]}[k % 4]


# Client-IDs of the SOME/IP header that carries an SD message: mostly 0, but a peer with a configured client-id prefix puts it
# there as well - the field is no part of what makes a message an SD message
CLIENT_IDS = (0, 0, 0, 0x1200, 0, 0x0001, 0, 0xFFFF)


def sd_bytes(entries, session, reboot=True, unicast=True, extra_flags=0, share=False, client=None, pad=b""):
    """lay out entries with their options (no sharing unless asked for: then a run that was laid out before is referenced
    again, which messages with many entries need - option indexes are one byte wide) and encode a full SD datagram"""
    options = []
    ents = []
    runs = {}

    def place(run):
        if not run:
            return 0
        key = tuple(bytes(o) if isinstance(o, (bytes, bytearray)) else repr(o) for o in run)
        if share and key in runs:
            return runs[key]
        runs[key] = len(options)
        options.extend(run)
        return runs[key]

    for e in entries:
        i1 = place(e["o1"])
        i2 = place(e["o2"])
        ents.append(dict(type=e["type"], i1=i1, i2=i2, n1=len(e["o1"]), n2=len(e["o2"]), sid=e["sid"],
                         iid=e["iid"], maj=e["maj"], ttl=e["ttl"], val=e["val"]))
    flags = (0x80 if reboot else 0) | (0x40 if unicast else 0) | extra_flags
    cid = CLIENT_IDS[session % len(CLIENT_IDS)] if client is None else client
    if pad:
        # bytes behind the option array, inside the SOME/IP payload (a sender that pads its SD messages): the SD message in front
        # of them decodes as it is
        return refwire.encode_someip(dict(sid=refwire.SD_SERVICE, mid=refwire.SD_METHOD, cid=cid, sess=session, pv=1, iv=1, mt=2, rc=0,
                                          payload=refwire.encode_sd(flags, ents, options) + bytes(pad)))
    return refwire.sd_datagram(flags, ents, options, session, cid=cid)


def decode_sent(transport_sent):
    """decode a RecTransport log into SD messages:
    [dict(t, it, dst, sess, reboot, unicast, entries=[dict(..., o1=[...], o2=[...])])]"""
    out = []
    for t, it, data, addr in transport_sent:
        for sd in refwire.parse_sd_datagram(data):
            ents = []
            for e in sd["entries"]:
                o1, o2 = refwire.entry_runs(sd, e)
                ents.append(dict(type=e["type"], sid=e["sid"], iid=e["iid"], maj=e["maj"], ttl=e["ttl"],
                                 val=e["val"], o1=o1, o2=o2))
            out.append(dict(t=t, it=it, dst=addr, sess=sd["sess"], reboot=bool(sd["flags"] & 0x80),
                            unicast=bool(sd["flags"] & 0x40), flags=sd["flags"], entries=ents,
                            n_options=len(sd["options"])))
    return out


class PeerSession:
    """session-id/reboot-flag generator of a simulated well-behaved remote peer"""

    def __init__(self):
        self.state = {}

    def next(self, key="u"):
        flag, sid = self.state.get(key, (True, 1))
        self.state[key] = (False, 1) if sid >= 0xFFFF else (flag, sid + 1)
        return flag, sid

    def reboot(self):
        self.state = {}


def client_filter(C, f, salt=0):
    """the config.Service a client watches for the ids f = (service, instance, major, minor): bare, or - as an application
    would that reuses its complete description of the service - listing eventgroups, or eventgroups and an endpoint option.
    What a filter matches depends on its four ids only.  Deterministic per f (+ salt), so that watch / stop-watch agree."""
    import ipaddress
    import someip.header as H

    style = (sum(f) + salt) % 3
    if style == 0:
        return C.Service(*f)
    egs = frozenset({1, 2})
    if style == 1:
        return C.Service(*f, eventgroups=egs)
    opt = H.IPv4EndpointOption(address=ipaddress.IPv4Address("10.9.9.9"), l4proto=H.L4Protocols.UDP, port=3999)
    return C.Service(*f, eventgroups=egs, options_1=(opt,))


_MAKE_SD_COUNT = [int(__import__("os").environ.get("PV_MAKE_SD_OFFSET", "0"))]
_FOREIGN_LOOP = []
DECOY_TIMINGS = dict(INITIAL_DELAY_MIN=7.0, INITIAL_DELAY_MAX=9.0, REQUEST_RESPONSE_DELAY_MIN=5.0, REQUEST_RESPONSE_DELAY_MAX=6.0,
                     REPETITIONS_MAX=7, REPETITIONS_BASE_DELAY=3.0, CYCLIC_OFFER_DELAY=9.0, FIND_TTL=9, ANNOUNCE_TTL=11,
                     SUBSCRIBE_TTL=13, SUBSCRIBE_REFRESH_INTERVAL=11.0, SEND_COLLECTION_TIMEOUT=0.5)


def make_sd(loop, addr=("10.0.0.1", 30490), timings=None, net=None, mcast=MCAST):
    """a ServiceDiscoveryProtocol on a recording transport.  The public API allows several ways to get there and all of them
    are used in turn: timings passed to the constructor, or a protocol built with defaults and configured afterwards by
    assigning to prot.timings.<FIELD> (what create_endpoints() users and the repository's tests do); built while the loop
    that will run it is the current one, or beforehand while another loop is current (objects set up before asyncio.run());
    and always next to a second, differently configured protocol object in the same process (a dual-stack node)."""
    import asyncio
    import dataclasses
    import someip.sd as S

    _MAKE_SD_COUNT[0] += 1
    n = _MAKE_SD_COUNT[0]
    foreign = n % 3 == 0
    if foreign:
        if not _FOREIGN_LOOP:
            from pv.vloop import VLoop
            _FOREIGN_LOOP.append(VLoop())
        asyncio.set_event_loop(_FOREIGN_LOOP[0])
    try:
        if timings is not None and n % 2 == 0:
            prot = S.ServiceDiscoveryProtocol(mcast)
            for f in dataclasses.fields(timings):
                setattr(prot.timings, f.name, getattr(timings, f.name))
        else:
            prot = S.ServiceDiscoveryProtocol(mcast, timings=timings)
        decoy = S.ServiceDiscoveryProtocol(mcast)
        for k, v in DECOY_TIMINGS.items():
            setattr(decoy.timings, k, v)
        prot._pv_decoy = decoy
    finally:
        if foreign:
            asyncio.set_event_loop(loop)
    tr = RecTransport(loop, addr, net=net)
    prot.transport = tr
    if net is not None:
        net.attach(addr, prot, tr)
    return prot, tr


TIMINGS_FIELDS = ("INITIAL_DELAY_MIN", "INITIAL_DELAY_MAX", "REQUEST_RESPONSE_DELAY_MIN", "REQUEST_RESPONSE_DELAY_MAX", "REPETITIONS_MAX",
                  "REPETITIONS_BASE_DELAY", "CYCLIC_OFFER_DELAY", "FIND_TTL", "ANNOUNCE_TTL", "SUBSCRIBE_TTL", "SUBSCRIBE_REFRESH_INTERVAL",
                  "SEND_COLLECTION_TIMEOUT")
_TIMINGS_COUNT = [0]


def timings(**kw):
    """a Timings object; every third one is built POSITIONALLY in the published field order (a configuration loader doing
    Timings(*row)), the others by keyword"""
    import someip.sd as S

    _TIMINGS_COUNT[0] += 1
    if _TIMINGS_COUNT[0] % 3 == 0:
        d = S.Timings()
        return S.Timings(*[kw.get(f, getattr(d, f)) for f in TIMINGS_FIELDS])
    return S.Timings(**kw)
