"""Check runner: shards a property's workload over worker subprocesses, merges what the
monitors observed, applies known-findings, writes evidence and replay files.

exit 0  held on everything observed (KNOWN-FINDING lines possible)
exit 1  VIOLATION property=<id> replay=<path>
exit 2  INCONCLUSIVE property=<id> reason=...
"""
from __future__ import annotations

import argparse
import collections
import concurrent.futures
import importlib
import json
import os
import shutil
import subprocess
import sys
import time

import pv
from pv import reach

PY = sys.executable
VERIF = pv.VERIF


def load_known():
    path = os.path.join(VERIF, "known_findings.json")
    try:
        with open(path) as f:
            return json.load(f)
    except OSError:
        return {"known": [], "fixed": []}


def run_shard(prop, spec, workdir, idx, timeout):
    specfile = os.path.join(workdir, f"spec-{idx}.json")
    outfile = os.path.join(workdir, f"out-{idx}.json")
    with open(specfile, "w") as f:
        json.dump(spec, f)
    env = dict(os.environ)
    env["PYTHONHASHSEED"] = os.environ.get("PV_FORCE_HASHSEED") or str(spec.get("_hashseed", 0))
    env["PV_TIEBREAK"] = os.environ.get("PV_FORCE_TIEBREAK") or spec.get("_tiebreak", "fifo")
    env["PYTHONPATH"] = VERIF
    env["PYTHONDONTWRITEBYTECODE"] = "1"
    try:
        p = subprocess.run(
            [PY, "-B", "-m", "pv.worker", prop, specfile, outfile],
            env=env, cwd=VERIF, timeout=timeout,
            stdout=subprocess.PIPE, stderr=subprocess.STDOUT,
        )
        out = p.stdout.decode(errors="replace")
        rc = p.returncode
    except subprocess.TimeoutExpired as exc:
        out = (exc.stdout or b"").decode(errors="replace")
        rc = "timeout"
    if os.path.exists(outfile):
        with open(outfile) as f:
            res = json.load(f)
    else:
        res = dict(status="no-result", evaluations=0, distinct=[], samples=[], counters={},
                   sets={}, violations=[], n_violations=0, reach=[],
                   inconclusive=[f"worker produced no result (rc={rc}): {out[-2000:]}"],
                   wall_s=0.0, spec=spec)
    res["rc"] = rc
    res["stdout_tail"] = out[-1500:]
    return res


def main(argv=None):
    ap = argparse.ArgumentParser(prog="check")
    ap.add_argument("prop")
    ap.add_argument("--tier", default=os.environ.get("VERIF_TIER") or "quick",
                    choices=["quick", "thorough"])
    ap.add_argument("--seed", type=int, default=None)
    ap.add_argument("--replay", default=None)
    ap.add_argument("--jobs", type=int, default=int(os.environ.get("PV_JOBS", "16")))
    ap.add_argument("--no-evidence", action="store_true")
    a = ap.parse_args(argv)
    prop = a.prop.upper()
    seed = a.seed
    if seed is None:
        try:
            seed = int(os.environ.get("VERIF_SEED", "0"))
        except ValueError:
            seed = 0
    mod = importlib.import_module(f"pv.props.{prop.lower()}")
    t0 = time.time()
    workdir = os.path.join(VERIF, ".work", f"{prop}-{a.tier}-{seed}-{os.getpid()}")
    shutil.rmtree(workdir, ignore_errors=True)
    os.makedirs(workdir)

    if a.replay:
        with open(a.replay) as f:
            doc = json.load(f)
        spec = dict(doc.get("spec") or {})
        spec["_replay"] = doc["replay"]
        specs = [spec]
    else:
        specs = mod.shards(a.tier, seed)
        if getattr(mod, "MESH", None):
            # system-level shards: the shared mesh workload (pv/mesh.py) under this property's boundary monitors
            from pv import mesh
            specs = list(specs) + mesh.shard_specs(mod.MESH, a.tier, seed)
    shard_timeout = getattr(mod, "SHARD_TIMEOUT", {}).get(a.tier, 1500 if a.tier == "quick" else 7200)
    variants = getattr(mod, "TIEBREAK_VARIANTS", False) and a.tier == "thorough" and not a.replay
    for k, s in enumerate(specs):
        if variants:
            s.setdefault("_tiebreak", ("fifo", "lifo", "fifo", "random")[k % 4])
        s.setdefault("_hashseed", (k // 4) % 4 if a.tier == "thorough" and not a.replay else 0)
        s.setdefault("_watchdog_s", shard_timeout - 20)
        s["tier"] = a.tier

    results = []
    with concurrent.futures.ThreadPoolExecutor(max_workers=max(1, a.jobs)) as ex:
        futs = [ex.submit(run_shard, prop, s, workdir, i, shard_timeout)
                for i, s in enumerate(specs)]
        for fu in futs:
            results.append(fu.result())

    # ---- merge -----------------------------------------------------------------------
    evaluations = sum(r["evaluations"] for r in results)
    distinct = set()
    counters = collections.Counter()
    sets = collections.defaultdict(set)
    samples = []
    violations = []
    n_viol = 0
    inconclusive = []
    hits = set()
    for r in results:
        distinct.update(r["distinct"])
        counters.update(r["counters"])
        for k, v in r["sets"].items():
            sets[k].update(v)
        for s in r["samples"]:
            if len(samples) < 8:
                samples.append(s)
        for v in r["violations"]:
            v["spec"] = {k: val for k, val in r["spec"].items() if k != "_replay"}
            violations.append(v)
        n_viol += r["n_violations"]
        inconclusive.extend(r["inconclusive"])
        if r["rc"] == "timeout":
            inconclusive.append("wall-clock watchdog fired for a shard (inconclusive, not a violation)")
        elif r["rc"] != 0 and r.get("status") != "ok":
            inconclusive.append(f"shard exit status {r['rc']}: {r['stdout_tail'][-400:]}")
        hits.update((x[0], x[1]) for x in r.get("reach", []))

    # ---- floors: a deciding monitor that was never reached makes the run inconclusive --
    if not a.replay:
        floors = getattr(mod, "FLOORS", {})
        for name, minimum in floors.get(a.tier, floors.get("quick", {})).items():
            if counters.get(name, 0) < minimum:
                inconclusive.append(f"monitor counter {name}={counters.get(name, 0)} below floor {minimum}")
        if evaluations == 0:
            inconclusive.append("no evaluations")
    reach_rows = reach.table(prop, VERIF, pv.SRC, hits) if hits else []
    # reach is evidence, not a verdict: anchors are line ranges of the pinned commit mapped through `git diff`, which a
    # harmless refactoring can invalidate; whether the deciding monitors were reached is decided by the counter floors
    reach_warnings = [f"anchored mechanism not seen executing: {row['mechanism']}" for row in reach_rows
                      if row["lines"] > 0 and row["hit"] == 0]

    # ---- known findings ----------------------------------------------------------------
    known = [k for k in load_known().get("known", []) if k.get("property") == prop]
    known_hit = collections.OrderedDict()
    new_violations = []
    for v in violations:
        match = next((k for k in known if k.get("mechanism") == v["mechanism"]), None)
        if match:
            known_hit.setdefault(match["mechanism"], match)
        else:
            new_violations.append(v)
    # violations beyond the recorded sample are counted but carry no mechanism: they are
    # only suppressed when every recorded one was known and counts agree per shard
    unrecorded = n_viol - len(violations)

    replay_paths = []
    if new_violations and not a.replay:
        rdir = os.path.join(VERIF, "replays")
        os.makedirs(rdir, exist_ok=True)
        for i, v in enumerate(new_violations[:10]):
            path = os.path.join(rdir, f"{prop}-{a.tier}-{seed}-{i}.json")
            with open(path, "w") as f:
                json.dump(dict(property=prop, mechanism=v["mechanism"], detail=v["detail"],
                               replay=v["replay"], spec=v["spec"]), f, indent=1)
            replay_paths.append(path)

    seen_r = set()
    inconclusive = [r for r in inconclusive
                    if not (r.splitlines()[-1] in seen_r or seen_r.add(r.splitlines()[-1]))]
    wall = time.time() - t0
    verdict = "held"
    if new_violations:
        verdict = "violated"
    elif inconclusive:
        verdict = "inconclusive"

    coverage = dict(
        evaluations=evaluations,
        distinct_nontrivial=len(distinct),
        rule=getattr(mod, "RULE", "") + ((" + system-level shards (pv/mesh.py): seeded scenarios of 2-4 complete SD stacks on one simulated network, each "
                                          "offering / watching / auto-subscribing, with graceful stop/start, crash/restart, watch / unwatch, announce / "
                                          "withdraw and loss / duplication / reordering windows, observed by this property's boundary monitors "
                                          + repr(tuple(mod.MESH["want"])) + " (counters mesh_*)") if getattr(mod, "MESH", None) else ""),
        samples=samples,
        exhaustive=bool(getattr(mod, "EXHAUSTIVE", False)) and not inconclusive,
        monitor_counters=dict(sorted(counters.items())),
        observed={k: sorted(v)[:64] for k, v in sorted(sets.items())},
        observed_sizes={k: len(v) for k, v in sorted(sets.items())},
        shards=len(specs),
        reach=reach_rows,
        reach_warnings=reach_warnings,
        verdict=verdict,
        inconclusive_reasons=inconclusive[:10],
        known_findings_reported=[k["mechanism"] for k in known_hit.values()],
    )
    if hasattr(mod, "summarize"):
        try:
            coverage.update(mod.summarize(counters, sets, a.tier))
        except Exception as exc:  # pragma: no cover
            coverage["summarize_error"] = repr(exc)
    evidence = dict(
        property_id=prop, tier=a.tier, seed=seed, level=getattr(mod, "LEVEL", "exploration"),
        coverage=coverage, assumptions=list(getattr(mod, "ASSUMPTIONS", [])),
        wall_s=round(wall, 3), violations=len(new_violations) + (unrecorded if new_violations else 0),
    )
    if not a.replay and not a.no_evidence:
        edir = os.path.join(VERIF, "evidence")
        os.makedirs(edir, exist_ok=True)
        tmp = os.path.join(edir, f".{prop}.json.tmp")
        with open(tmp, "w") as f:
            json.dump(evidence, f, indent=1, sort_keys=True)
        os.replace(tmp, os.path.join(edir, f"{prop}.json"))
    shutil.rmtree(workdir, ignore_errors=True)

    # ---- report --------------------------------------------------------------------------
    print(f"{prop} tier={a.tier} seed={seed}: {evaluations} evaluations, "
          f"{len(distinct)} distinct non-trivial, {len(specs)} shards, {wall:.1f}s")
    for k, v in sorted(counters.items()):
        print(f"  {k} = {v}")
    for k in known_hit.values():
        print(f"KNOWN-FINDING: property={prop} {k.get('what', k['mechanism'])}")
    if new_violations:
        for i, v in enumerate(new_violations[:10]):
            print(f"  violation[{i}] mechanism={v['mechanism']} detail={json.dumps(v['detail'])[:1500]}")
        if a.replay:
            print(f"VIOLATION property={prop} replay={a.replay}")
        else:
            for p in replay_paths[:1]:
                print(f"VIOLATION property={prop} replay={p}")
        return 1
    if inconclusive:
        for r in inconclusive[:10]:
            print(f"INCONCLUSIVE property={prop} reason={r[-1200:]}")
        return 2
    print(f"HELD property={prop} on everything observed")
    return 0


if __name__ == "__main__":
    sys.exit(main())
