#!/bin/sh
# ./robust.sh C05 C13 ...   - "no alarm on correct code" battery for the named checks (quick tier):
#   seeds 1..4, LIFO / random order of equal deadlines, another hash seed, and two behaviour-preserving rewrites of the
#   library in scratch copies (delay drawn with random.triangular; offers / reboots / connection loss handled synchronously)
# Prints one line per run; anything but HELD is worth reading.  Not a registered check.
cd "$(dirname "$0")"
props="$*"; [ -n "$props" ] || props="C01 C02 C03 C04 C05 C06 C07 C08 C09 C10 C11 C12 C13 C14 C15 C16 C17 C18 C19 C20"
one() { printf '%-28s %s %s\n' "$1" "$2" "$(./check $2 --no-evidence $3 | grep -E 'HELD|VIOLATION|INCONCL' | head -1 | cut -c1-110)"; }
for p in $props; do
  for s in 1 2 3 4; do one "seed=$s" $p "--seed $s"; done
  PV_FORCE_TIEBREAK=lifo one "tiebreak=lifo" $p
  [ $p = C03 ] || PV_FORCE_TIEBREAK=random one "tiebreak=random" $p
  PV_FORCE_HASHSEED=5 one "hashseed=5" $p
done
d=$(mktemp -d /tmp/pvrob.XXXXXX); cp -r /repo/src $d/src
sed -i 's/random\.uniform(/random.triangular(/' $d/src/someip/sd.py
for p in $props; do PV_REPO=$d one "rewrite=triangular" $p; done
rm -rf $d
d=$(mktemp -d /tmp/pvrob.XXXXXX); cp -r /repo/src $d/src
/venv/bin/python - "$d" <<'PY'
import sys
p = sys.argv[1] + '/src/someip/sd.py'; s = open(p).read()
old = '''                asyncio.get_event_loop().call_soon(
                    self.discovery.handle_offer, entry, addr
                )
                continue'''
assert s.count(old) == 1
s = s.replace(old, '''                self.discovery.handle_offer(entry, addr)
                continue''')
for a in ('self.discovery.reboot_detected, addr', 'self.subscriber.reboot_detected, addr', 'self.subscriber.connection_lost, exc',
          'self.discovery.connection_lost, exc', 'self.announcer.connection_lost, exc'):
    old = 'asyncio.get_event_loop().call_soon(%s)' % a
    f, arg = a.split(', ')
    assert s.count(old) == 1, a
    s = s.replace(old, '%s(%s)' % (f, arg))
open(p, 'w').write(s)
PY
for p in $props; do PV_REPO=$d one "rewrite=all-synchronous" $p; done
rm -rf $d
