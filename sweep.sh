#!/bin/sh
# seed sweep helper (not a registered check): ./sweep.sh <tier> <seed>...
tier=$1; shift
for seed in "$@"; do
  for p in C01 C02 C03 C04 C05 C06 C07 C08 C09 C10 C11 C12 C13 C14 C15 C16 C17 C18 C19 C20; do
    out=$(VERIF_SEED=$seed PYTHONHASHSEED=0 ./check $p --tier $tier --no-evidence 2>&1); rc=$?
    echo "$tier seed=$seed $p rc=$rc $(echo "$out" | grep -E 'VIOLATION|INCONCLUSIVE|HELD' | head -2 | cut -c1-200 | tr '\n' ' ') $(echo "$out" | head -1 | grep -o '[0-9.]*s$')"
  done
done
