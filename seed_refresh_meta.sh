#!/bin/sh
# refresh seeded/<n>/meta.json "checks" from a run of the target check against a scratch copy with the patch
cd "$(dirname "$0")"
n=$1; P=$(echo $n | cut -c1-3)
d=$(mktemp -d /tmp/pvseedreg.XXXXXX); mkdir -p $d/repo; cp -r /repo/src $d/repo/src
(cd $d/repo && patch -s -p1 < /verif/seeded/$n/patch.diff >/dev/null 2>&1) || { echo "$n no-apply"; rm -rf $d; exit; }
PV_REPO=$d/repo ./check $P --no-evidence 2>/dev/null > $d/out.txt
python3 - $n $P $d/out.txt <<'PY'
import json,re,sys
n,P,f=sys.argv[1:]
t=open(f).read()
v=re.search(r'^(HELD|VIOLATION|INCONCLUSIVE)',t,re.M)
mech=re.findall(r'violation\[\d+\] mechanism=(\S+)',t)[:3]
p=f'/verif/seeded/{n}/meta.json'; m=json.load(open(p))
m.setdefault('checks',{})[P]=dict(verdict=v.group(1) if v else 'NO-VERDICT',mechanisms=mech)
json.dump(m,open(p,'w'),indent=1); print(n,m['checks'][P])
PY
rm -rf $d
