#!/bin/sh
# seed sweep helper for some checks (not a registered check): ./sweep_some.sh <tier> <seed> C02 C03 ...
tier=$1; seed=$2; shift 2
for p in "$@"; do
  out=$(VERIF_SEED=$seed PYTHONHASHSEED=0 ./check $p --tier $tier --no-evidence 2>&1); rc=$?
  echo "$tier seed=$seed $p rc=$rc $(echo "$out" | grep -E 'VIOLATION|INCONCLUSIVE|HELD' | head -2 | cut -c1-200 | tr '\n' ' ') $(echo "$out" | head -1 | grep -o '[0-9.]*s$')"
done
