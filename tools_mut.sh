#!/bin/sh
# usage: tools_mut.sh <PROP> <sed-expr> <file-relative-to-src/someip> [more check args]
# applies a one-line break to a scratch copy and runs the check against it (self-test only)
d=$(mktemp -d /tmp/pvmut.XXXXXX)
cp -r /repo/src "$d/src"
sed -i "$2" "$d/src/someip/$3"
if diff -q /repo/src/someip/$3 "$d/src/someip/$3" >/dev/null; then echo "MUTANT DID NOT APPLY"; rm -rf "$d"; exit 9; fi
prop=$1; shift; shift; shift
PV_REPO="$d" /verif/check "$prop" --no-evidence "$@" | grep -E "VIOLATION|HELD|INCONCLUSIVE|violation\[0\]" | cut -c1-400
rm -rf "$d"
