#!/venv/bin/python
"""Intake of an independently written defect-introducing change ("seeded break").

    ./seed_intake.py <ID> <dir-with-patch.diff+demo.py+meta.json> [--checks C05,C09] [--name NAME]

Confirms, in a scratch git worktree of /repo (outside /repo and /verif, removed afterwards):
  1. the patch applies to /repo's HEAD,
  2. the repository's own test-suite still passes with it,
  3. the demonstration fails with the patch and passes without it,
then runs the property's quick check (and any extra checks) against the patched scratch tree
(PV_REPO) and records everything in /verif/seeded/<NAME>/ (patch.diff, demo.py, meta.json).
Nothing is ever committed to /repo.  (Not a registered check.)
"""
import json
import os
import shutil
import subprocess
import sys
import tempfile


def sh(cmd, **kw):
    return subprocess.run(cmd, capture_output=True, text=True, **kw)


def main():
    pid = sys.argv[1].upper()
    src = sys.argv[2]
    checks = [pid]
    name = None
    for i, a in enumerate(sys.argv):
        if a == "--checks":
            checks = sys.argv[i + 1].upper().split(",")
        if a == "--name":
            name = sys.argv[i + 1]
    name = name or pid
    patch = os.path.join(src, "patch.diff")
    demo = os.path.join(src, "demo.py")
    meta = json.load(open(os.path.join(src, "meta.json"))) if os.path.exists(os.path.join(src, "meta.json")) else {}
    tmp = tempfile.mkdtemp(prefix="pvseed.")
    wt = os.path.join(tmp, "wt")
    report = dict(property=pid, name=name)
    try:
        r = sh(["git", "-C", "/repo", "worktree", "add", "-q", "--detach", wt, "HEAD"])
        assert r.returncode == 0, r.stderr
        env = dict(os.environ, PYTHONPATH=os.path.join(wt, "src"))
        # demo on the unchanged tree
        r0 = sh(["/venv/bin/python", "-B", demo], env=env, cwd=tmp, timeout=300)
        report["demo_without_patch"] = dict(rc=r0.returncode, tail=(r0.stdout + r0.stderr)[-400:])
        ra = sh(["git", "-C", wt, "apply", os.path.abspath(patch)])
        report["patch_applies"] = ra.returncode == 0
        if ra.returncode != 0:
            report["apply_error"] = ra.stderr[-400:]
        else:
            r1 = sh(["/venv/bin/python", "-B", demo], env=env, cwd=tmp, timeout=300)
            report["demo_with_patch"] = dict(rc=r1.returncode, tail=(r1.stdout + r1.stderr)[-600:])
            rt = sh(["/venv/bin/python", "-m", "pytest", "-q", "-p", "no:cacheprovider", "-n", "8", "--timeout=900"], env=env, cwd=wt,
                    timeout=1800)
            report["tests_with_patch"] = rt.stdout.strip().splitlines()[-1] if rt.stdout.strip() else rt.stderr[-300:]
            report["checks"] = {}
            for c in checks:
                rc = sh(["/verif/check", c, "--no-evidence"], env=dict(os.environ, PV_REPO=wt), cwd="/verif", timeout=3000)
                verdict = "VIOLATION" if "VIOLATION property=" in rc.stdout else "INCONCLUSIVE" if "INCONCLUSIVE" in rc.stdout else "HELD"
                mech = [line.split("mechanism=")[1].split(" ")[0] for line in rc.stdout.splitlines() if "violation[" in line][:3]
                report["checks"][c] = dict(verdict=verdict, mechanisms=mech)
        ok = (report.get("patch_applies") and report["demo_without_patch"]["rc"] == 0 and report["demo_with_patch"]["rc"] != 0
              and "123 passed" in report.get("tests_with_patch", ""))
        report["confirmed"] = bool(ok)
        print(json.dumps(report, indent=1))
        if ok:
            out = os.path.join("/verif/seeded", name)
            os.makedirs(out, exist_ok=True)
            shutil.copy(patch, os.path.join(out, "patch.diff"))
            shutil.copy(demo, os.path.join(out, "demo.py"))
            meta_out = dict(property=pid, breaks=meta.get("summary"), needs_to_manifest=meta.get("needs_to_manifest"),
                            files_touched=meta.get("files_touched"), author="independent sub-agent (saw only the property text)",
                            confirmed=dict(patch_applies=True, tests_with_patch=report["tests_with_patch"],
                                           demo_without_patch_rc=report["demo_without_patch"]["rc"],
                                           demo_with_patch_rc=report["demo_with_patch"]["rc"],
                                           ran="seed_intake.py: scratch worktree of /repo HEAD; demo.py with/without patch; pytest -n 8 with patch; "
                                               "./check <id> --no-evidence with PV_REPO=<scratch worktree>"),
                            checks=report["checks"])
            json.dump(meta_out, open(os.path.join(out, "meta.json"), "w"), indent=1)
    finally:
        sh(["git", "-C", "/repo", "worktree", "remove", "--force", wt])
        shutil.rmtree(tmp, ignore_errors=True)


if __name__ == "__main__":
    main()
