#!/bin/sh
# t.sh <seedname> <check>
n=$1; P=$2; d=$(mktemp -d /tmp/pvx.XXXX); mkdir -p $d/repo; cp -r /repo/src $d/repo/src; (cd $d/repo && patch -s -p1 < /verif/seeded/$n/patch.diff); cd /verif; echo "$n vs $P: $(PV_REPO=$d/repo ./check $P --no-evidence | grep -E "mechanism|^(HELD|VIOL|INCON)" | cut -c1-160 | head -1)"; rm -rf $d
