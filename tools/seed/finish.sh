#!/bin/sh
# finish.sh <id> [checks]
id=$1; P=$(echo $id | cut -c1-3)
cd /verif && ./intake_show.sh $P /tmp/seed/$id/out $id ${2:-$P} 2>&1 | tail -2
git -C /repo worktree remove --force /tmp/seed/$id/wt 2>/dev/null; git -C /repo worktree prune
