#!/usr/bin/env python3
"""setup_round.py <flavour-file>: create next-letter ids, worktrees and prompts for all 20 properties; prints the ids"""
import glob, json, os, string, subprocess, sys
flavour = open(sys.argv[1]).read().strip()
tmpl = open('/tmp/seed/prompt_template.txt').read()
ids = []
for n in range(1, 21):
    P = f"C{n:02d}"
    used = sorted(os.path.basename(d) for d in glob.glob(f'/verif/seeded/{P}*') if os.path.isdir(d))
    letters = [u[3:] for u in used]
    nxt = next(l for l in string.ascii_lowercase[1:] if l not in letters)
    sid = P + nxt
    os.makedirs(f'/tmp/seed/{sid}', exist_ok=True)
    subprocess.run(['cp', f'/tmp/seed/{P}/property.txt', f'/tmp/seed/{sid}/property.txt'], check=True)
    if not os.path.isdir(f'/tmp/seed/{sid}/wt'):
        subprocess.run(['git', '-C', '/repo', 'worktree', 'add', '--detach', f'/tmp/seed/{sid}/wt', 'HEAD'], check=True, capture_output=True)
    lines = []
    for i, u in enumerate(used):
        m = json.load(open(f'/verif/seeded/{u}/meta.json'))
        lines.append(f"   ({string.ascii_lowercase[i]}) " + m.get('breaks', m.get('summary', ''))[:170].replace('\n', ' ') + ' ...')
    extra = (" ALSO: other people have already used the following defects for this property - do NOT use any of them, nor a close variant; "
             "pick a different mechanism, preferably in a different function:\n" + "\n".join(lines) + "\n " + flavour)
    p = tmpl.replace('@ID@', sid)
    marker = "do NOT simply revert one of them - find something new."
    assert marker in p
    p = p.replace(marker, marker + extra)
    p = p.replace(f'{{"property": "{sid}"', f'{{"property": "{P}"').replace(f'("{sid}")', f'("{P}")')
    open(f'/tmp/seed/{sid}/prompt.txt', 'w').write(p)
    ids.append(sid)
print(' '.join(ids))
