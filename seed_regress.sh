#!/bin/sh
# ./seed_regress.sh [name ...]  - applies every seeded break (default: all) to a scratch copy of /repo/src and runs the quick
# check of the property it targets against that copy (PV_REPO); prints one line per seed.  Not a registered check.
cd "$(dirname "$0")"
names="$*"; [ -n "$names" ] || names=$(ls seeded | grep -v README)
for n in $names; do
  P=$(echo $n | cut -c1-3)
  d=$(mktemp -d /tmp/pvseedreg.XXXXXX); mkdir -p $d/repo; cp -r /repo/src $d/repo/src
  if (cd $d/repo && patch -s -p1 < /verif/seeded/$n/patch.diff >/dev/null 2>&1); then
    v=$(PV_REPO=$d/repo ./check $P --no-evidence 2>/dev/null | grep -E '^(HELD|VIOLATION|INCONCLUSIVE)' | head -1 | cut -d' ' -f1)
    echo "$n $P ${v:-NO-VERDICT}"
  else
    echo "$n $P PATCH-DOES-NOT-APPLY"
  fi
  rm -rf $d
done
