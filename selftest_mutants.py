#!/venv/bin/python
"""Self-test: apply deliberate one-site breaks to a scratch copy of /repo/src and confirm
that the property's quick check reports a violation (or stays silent for equivalent changes).

    ./selftest_mutants.py [PROP ...]      (not a registered check; scratch copies live under $TMPDIR and are removed)
"""
import os, shutil, subprocess, sys, tempfile

M = []
def m(prop, name, file, old, new, expect="VIOLATION"):
    M.append((prop, name, file, old, new, expect))

# ---- C01
m("C01", "length = len+4", "header.py", "size = len(self.payload) + 8", "size = len(self.payload) + 4")
m("C01", "client/session swapped in build", "header.py", "            self.client_id,\n            self.session_id,\n            self.protocol_version,", "            self.session_id,\n            self.client_id,\n            self.protocol_version,")
m("C01", "only first message of a datagram delivered", "sd.py", "            while data:\n                # 4.2.1, TR_SOMEIP_00140", "            if data:\n                # 4.2.1, TR_SOMEIP_00140")
m("C01", "payload slice off by one", "header.py", "payload_b, buf_rest = buf_rest[: size - 8], buf_rest[size - 8 :]", "payload_b, buf_rest = buf_rest[: size - 8], buf_rest[size - 7 :]")
m("C05", "D10 reverted: stopped reports made while iterating the live sets", "sd.py", "                for listener in list(listeners):\n                    if listener in listeners:\n                        listener.service_stopped(service, source)", "                for listener in listeners:\n                    if listener in listeners:\n                        listener.service_stopped(service, source)")
m("C05", "D13 reverted: one round of offered reports, taken from snapshots", "sd.py", '        done: typing.Set[typing.Tuple[typing.Any, int]] = set()\n        while True:\n            todo: typing.List[typing.Tuple[typing.Any, typing.Any, typing.Any]] = []\n            for service_filter, listeners in list(self.watched_services.items()):\n                if service_filter.matches_service(service):\n                    todo.extend((service_filter, listeners, x) for x in list(listeners))\n            todo.extend(\n                (None, self.watcher_all_services, x)\n                for x in list(self.watcher_all_services)\n            )\n            todo = [t for t in todo if (t[0], id(t[2])) not in done]\n            if not todo:\n                break\n            for key, listeners, listener in todo:\n                done.add((key, id(listener)))\n                if listener in listeners:\n                    listener.service_offered(service, source)\n', '        for service_filter, listeners in list(self.watched_services.items()):\n            if service_filter.matches_service(service):\n                for listener in list(listeners):\n                    if listener in listeners:\n                        listener.service_offered(service, source)\n        for listener in list(self.watcher_all_services):\n            if listener in self.watcher_all_services:\n                listener.service_offered(service, source)\n')
m("C06", "D12 reverted: reboot applied while walking the live list of instances", "sd.py", "        for instance in list(self.announcing_services):\n            instance.reboot_detected(addr)", "        for instance in self.announcing_services:\n            instance.reboot_detected(addr)")
m("C10", "D11 reverted: pending unicast offers not flushed ahead of the StopOffer", "sd.py", "            self.announcer.flush_offers(self.service)\n", "            pass\n")
# ---- C16
m("C16", "method check before version check", "service.py", "        if someip_message.interface_version != self.version_major:", "        if someip_message.method_id in self.methods and someip_message.interface_version != self.version_major:")
m("C16", "RESPONSE for REQUEST_NO_RETURN", "service.py", "            and someip_message.message_type == header.SOMEIPMessageType.REQUEST\n", "            and True\n")
m("C16", "bad return code answered E_NOT_OK", "service.py", "                \"received message with bad return code: %r\", someip_message\n            )\n            self.send_error_response(\n                someip_message, addr, header.SOMEIPReturnCode.E_WRONG_MESSAGE_TYPE", "                \"received message with bad return code: %r\", someip_message\n            )\n            self.send_error_response(\n                someip_message, addr, header.SOMEIPReturnCode.E_NOT_OK")
m("C16", "multicast answered", "service.py", "                stacklevel=2,\n            )\n            return", "                stacklevel=2,\n            )")
m("C16", "error reply keeps payload", "service.py", "            return_code=return_code,\n            payload=b\"\",", "            return_code=return_code,")
# ---- C18
m("C18", "read() instead of readexactly() for the payload", "header.py", "payload_b = await reader.readexactly(size - 8)", "payload_b = await reader.read(size - 8)")
m("C18", "size<8 only checked by parse()", "header.py", "        if size < 8:\n            raise ParseError(\"SOMEIP length must be at least 8\")\n", "")
m("C18", "stream header read 12 bytes", "header.py", "hdr_b = await reader.readexactly(cls.__format.size)", "hdr_b = await reader.readexactly(12) + b'\\1\\1\\0\\0'")
# ---- C19
m("C19", "matches_find wildcard on the wrong side (major)", "config.py", "        if entry.major_version != 0xFF and self.major_version != entry.major_version:\n            return False\n        if (\n            entry.service_minor_version", "        if self.major_version != 0xFF and self.major_version != entry.major_version:\n            return False\n        if (\n            entry.service_minor_version")
m("C19", "matches_offer ignores minor version", "config.py", "            self.minor_version != 0xFFFFFFFF\n            and self.minor_version != entry.service_minor_version\n        ):\n            return False\n        return True\n\n    def matches_find", "            False\n        ):\n            return False\n        return True\n\n    def matches_find")
m("C19", "for_service keeps its own major version", "config.py", "            major_version=service.major_version,\n        )", "        )")
m("C19", "matches_service: and -> or on instance", "config.py", "            self.instance_id != 0xFFFF\n            and other.instance_id != 0xFFFF\n            and self.instance_id != other.instance_id", "            (self.instance_id != 0xFFFF\n            or other.instance_id != 0xFFFF)\n            and self.instance_id != other.instance_id")
# ---- C07
m("C07", ">= -> > in the session comparison", "sd.py", "old_session_id >= session_id", "old_session_id > session_id")
m("C07", "keyed by sender only", "sd.py", "        k = (sender, multicast)", "        k = (sender, False)")
m("C07", "stored state only updated on first sight", "sd.py", "        finally:\n            self.incoming[k] = (flag, session_id)", "        finally:\n            pass")
m("C07", "fan-out misses the subscriber", "sd.py", "        asyncio.get_event_loop().call_soon(self.subscriber.reboot_detected, addr)\n", "")
m("C07", "session-id clause dropped", "sd.py", "not old_flag or (old_session_id > 0 and old_session_id >= session_id)", "not old_flag")
# ---- C08
m("C08", "wrap to 0", "sd.py", "self.outgoing[remote] = (False, 1)", "self.outgoing[remote] = (False, 0)")
m("C08", "lock removed (thread stress)", "sd.py", "        with self.outgoing_lock:", "        if True:")
m("C08", "flag cleared one id early", "sd.py", "            if _id >= 0xFFFF:", "            if _id >= 0xFFFE:")
m("C08", "id taken before the empty check", "sd.py", "        if not entries:\n            return\n        flag_reboot, session_id = self.session_storage.assign_outgoing(remote)", "        flag_reboot, session_id = self.session_storage.assign_outgoing(remote)\n        if not entries:\n            return")
m("C08", "one global counter", "sd.py", "            flag, _id = self.outgoing[remote]\n            if _id >= 0xFFFF:\n                # 4.2.1, TR_SOMEIP_00521\n                # 4.2.1, TR_SOMEIP_00255\n                self.outgoing[remote] = (False, 1)\n            else:\n                self.outgoing[remote] = (flag, _id + 1)", "            flag, _id = self.outgoing[None]\n            if _id >= 0xFFFF:\n                self.outgoing[None] = (False, 1)\n            else:\n                self.outgoing[None] = (flag, _id + 1)")

# ---- C02
m("C02", "_find returns the wrong index", "header.py", "return i - n + 1", "return i - n + 2")
m("C02", "option-run bound check off by one", "header.py", "if oi1 + no1 > num_options:", "if oi1 + no1 >= num_options:")
m("C02", "run counts swapped on the wire", "header.py", "(no1 << 4) | no2,", "(no2 << 4) | no1,")
m("C02", "D7 reverted: run lengths unchecked", "header.py", "        if not (0 <= no1 <= 0x0F and 0 <= no2 <= 0x0F):\n            raise struct.error(\"number of options per run must fit into 4 bits\")\n", "")
m("C02", "skip table with larger skips (equivalent: only reduces sharing)", "header.py", "skip = {needle[i]: n - i - 1 for i in range(n - 1)}", "skip = {needle[i]: n - i for i in range(n - 1)}", "HELD")
# ---- C03
m("C03", "_unpack length guard off by one", "header.py", "    if len(buf) < fmt.size:", "    if len(buf) < fmt.size - 1:")
m("C03", "option index bound loosened", "header.py", "        if oi1 + no1 > num_options:", "        if oi1 + no1 > num_options + 1:")
m("C03", "config string length check loosened", "header.py", "            if len(b) < nextlen + 1:", "            if len(b) < nextlen:")
m("C03", "D6 reverted: UnicodeDecodeError escapes the receive path", "sd.py", "        except (someip.header.ParseError, UnicodeDecodeError) as exc:", "        except someip.header.ParseError as exc:")
m("C03", "session state touched before the SD payload is decoded", "sd.py", "        try:\n            sdhdr, rest = someip.header.SOMEIPSDHeader.parse(someip_message.payload)", "        self.session_storage.check_received(addr, multicast, bool(someip_message.payload[:1] and someip_message.payload[0] & 0x80), someip_message.session_id)\n        try:\n            sdhdr, rest = someip.header.SOMEIPSDHeader.parse(someip_message.payload)")
m("C03", "entries dispatched although the unicast flag is clear", "sd.py", "        if not sdhdr.flag_unicast:", "        if False:")
# ---- C20
m("C20", "unknown flag bits masked on build", "header.py", "        flags = self.flags_unknown\n", "        flags = self.flags_unknown & 0x0F\n")
m("C20", "assign_option_indexes forgets the existing option array", "header.py", "        options = list(self.options)\n", "        options = []\n")
m("C20", "unknown protocol number coerced", "header.py", "            l4proto = l4proto_b\n", "            l4proto = 0\n")
# ---- C09
m("C09", "old timer not cancelled on refresh", "sd.py", "            if old_timeout_handle:\n", "            if old_timeout_handle and False:\n")
m("C09", "TTL 0xFFFFFE treated as infinite", "sd.py", "        if ttl != TTL_FOREVER:", "        if ttl < TTL_FOREVER - 1:")
m("C09", "expiry 1 ms early", "sd.py", "                ttl, self._expired, address, entry", "                ttl - 0.001, self._expired, address, entry")
m("C09", "timer not cancelled on stop", "sd.py", "        if _timeout_handle:\n", "        if _timeout_handle and False:\n")
m("C09", "D2 reverted: expiry callback deferred", "sd.py", "        # report immediately, like stop(): if this were deferred, a refresh handled in\n        # between would be reported as new before its predecessor is reported expired\n        callback(entry, address)", "        asyncio.get_event_loop().call_soon(callback, entry, address)")
# ---- C05
m("C05", "watch-all listeners not told about offers", "sd.py", "            todo.extend(\n                (None, self.watcher_all_services, x)\n                for x in list(self.watcher_all_services)\n            )\n", "")
m("C05", "D1 reverted: removed entries reported via call_soon", "sd.py", "            callback(entry, address)\n\n    def stop_all(self)", "            asyncio.get_event_loop().call_soon(callback, entry, address)\n\n    def stop_all(self)")
m("C05", "discovery ignores detected reboots", "sd.py", "        self.found_services.stop_all_for_address(addr)", "        pass")
m("C05", "D8 reverted: watch replay deferred", "sd.py", "                if service.matches_service(s):\n                    listener.service_offered(s, addr)", "                if service.matches_service(s):\n                    asyncio.get_event_loop().call_soon(listener.service_offered, s, addr)")
m("C05", "D9 reverted: updates ignored while unwatched", "sd.py", "            self.service_offer_stopped(addr, entry)\n            return\n        if entry.ttl == 0:", "            return\n        if entry.ttl == 0:")
m("C05", "unwatch does not notify (demanded only for a listener that stays registered under another filter)", "sd.py", "                if service.matches_service(s):\n                    listener.service_stopped(s, addr)", "                if service.matches_service(s):\n                    pass")
# ---- C06
m("C06", "D1 reverted: announcer reboot handling deferred", "sd.py", "        self.announcer.reboot_detected(addr)\n", "        asyncio.get_event_loop().call_soon(self.announcer.reboot_detected, addr)\n")
m("C06", "rejected subscription recorded anyway", "sd.py", "        except NakSubscription:\n            self.announcer._send_subscribe_nack(subscription, addr)", "        except NakSubscription:\n            self.subscriptions.store[addr][subscription] = (self.listener.client_unsubscribed, None)\n            self.announcer._send_subscribe_nack(subscription, addr)")
m("C06", "ttl part of the subscription identity", "sd.py", "    ttl: int = dataclasses.field(compare=False)", "    ttl: int = dataclasses.field(compare=True)")
m("C06", "service stop keeps subscriptions", "sd.py", "        self.subscriptions.stop_all()\n", "        pass\n")
m("C06", "counter 1 always negatively acknowledged", "sd.py", "            self.announcer.queue_send(subscription.to_ack_entry(), remote=addr)", "            self.announcer.queue_send(subscription.to_ack_entry() if subscription.counter != 1 else subscription.to_nack_entry(), remote=addr)")
# ---- C10
m("C10", "D5 reverted: stop_announce_service rejects the Service", "sd.py", "        if isinstance(instance, someip.config.Service):", "        if False:")
m("C10", "D4 reverted: second stop raises", "sd.py", "        if not self.started:\n            return\n        for instance in self.announcing_services:\n            instance.stop()", "        for instance in self.announcing_services:\n            instance.stop()")
m("C10", "D3 reverted: find answers not re-checked", "sd.py", "        if not self._can_answer_offers:\n            return\n        self._send_offer(remote)", "        self._send_offer(remote)")
m("C10", "repetition gap 2*i instead of 2**i", "sd.py", "(2 ** i) * self.timings.REPETITIONS_BASE_DELAY)\n                self._send_offer()", "(2 * i) * self.timings.REPETITIONS_BASE_DELAY)\n                self._send_offer()")
m("C10", "one repetition too many", "sd.py", "            for i in range(self.timings.REPETITIONS_MAX):\n                await asyncio.sleep((2 ** i)", "            for i in range(self.timings.REPETITIONS_MAX + 1):\n                await asyncio.sleep((2 ** i)")
m("C10", "StopOffer sent twice", "sd.py", "        finally:\n            if self.timings.CYCLIC_OFFER_DELAY:\n                self._send_offer(stop=True)", "        finally:\n            if self.timings.CYCLIC_OFFER_DELAY:\n                self._send_offer(stop=True)\n                self._send_offer(stop=True)")
# ---- C11
m("C11", "no Nack when nothing matched", "sd.py", "            subscription = EventgroupSubscription.from_subscribe_entry(entry)\n            self._send_subscribe_nack(subscription, addr)\n            return", "            return")
m("C11", "stopped instance acknowledges", "sd.py", "        if self._task is None:\n            return False\n\n        if not self.service.matches_subscribe(entry):", "        if not self.service.matches_subscribe(entry):")
m("C11", "counter dropped from the Ack", "sd.py", "            minver_or_counter=(self.counter << 16) | self.id,", "            minver_or_counter=self.id,")
m("C11", "Ack TTL constant", "sd.py", "            ttl=self.ttl,\n            minver_or_counter=(self.counter", "            ttl=3,\n            minver_or_counter=(self.counter")
m("C11", "multicast Subscribe processed", "sd.py", "                if multicast:\n                    self.log.warning(\n                        \"discarding subscribe received over multicast from %s: %s\",", "                if False:\n                    self.log.warning(\n                        \"discarding subscribe received over multicast from %s: %s\",")
m("C11", "undeclared eventgroup accepted", "config.py", "        return entry.eventgroup_id in self.eventgroups", "        return True")
# ---- C12
m("C12", "minor version ignored by matches_find", "config.py", "            entry.service_minor_version != 0xFFFFFFFF\n            and self.minor_version != entry.service_minor_version", "            False")
m("C12", "answer sent to the multicast group", "sd.py", "                asyncio.get_event_loop().call_later(delay, func, addr)", "                asyncio.get_event_loop().call_later(delay, func, None)")
m("C12", "delay applied to unicast requests too", "sd.py", "        if received_over_multicast:\n            # R21-11", "        if True:\n            # R21-11")
m("C12", "instances answer during the initial wait", "sd.py", "        self._can_answer_offers = False\n        self._task = asyncio.create_task(self._offer_task())", "        self._can_answer_offers = True\n        self._task = asyncio.create_task(self._offer_task())")
# ---- C13
m("C13", "finds also for services already found", "sd.py", "                if not self._service_found(service)  # 4.2.1: SWS_SD_00365", "                if True")
m("C13", "found test by equality instead of wildcard match", "sd.py", "        return any(service.matches_service(s) for s in self.found_services.entries())", "        return any(service == s for s in self.found_services.entries())")
m("C13", "find TTL constant", "sd.py", "service.create_find_entry(self.timings.FIND_TTL)", "service.create_find_entry(3)")
m("C13", "gap not doubling", "sd.py", "                (2 ** i) * self.timings.REPETITIONS_BASE_DELAY\n            )  # 4.2.1: SWS_SD_00363", "                (i + 1) * self.timings.REPETITIONS_BASE_DELAY\n            )  # 4.2.1: SWS_SD_00363")
m("C13", "rounds continue after everything was found", "sd.py", "            find_entries = _build_entries()\n            if not find_entries:\n                return\n            self.sd.send_sd(find_entries)  # 4.2.1: SWS_SD_00457", "            find_entries = _build_entries()\n            if not find_entries:\n                continue\n            self.sd.send_sd(find_entries)  # 4.2.1: SWS_SD_00457")
# ---- C14
m("C14", "subscribe sent synchronously (overtakes a deferred StopSubscribe)", "sd.py", "        if self.alive:\n            asyncio.get_event_loop().call_soon(\n                self._send_start_subscribe, endpoint, [eventgroup]\n            )", "        if self.alive:\n            self._send_start_subscribe(endpoint, [eventgroup])")
m("C14", "stop() sends no StopSubscribe", "sd.py", "        if send_stop_subscribe:\n            for endpoint, entries in self._group_entries().items():", "        if False:\n            for endpoint, entries in self._group_entries().items():")
m("C14", "refresh sleeps twice the interval", "sd.py", "await asyncio.sleep(self.timings.SUBSCRIBE_REFRESH_INTERVAL)", "await asyncio.sleep(self.timings.SUBSCRIBE_REFRESH_INTERVAL * 2)")
m("C14", "entries grouped under the wrong server", "sd.py", "            endpoint_entries[endpoint].append(eventgroup)", "            endpoint_entries[self.subscribeentries[0][1]].append(eventgroup)")
m("C14", "IPv6 endpoints always announced as UDP", "config.py", "            return someip.header.IPv6EndpointOption(\n                address=naddr, l4proto=protocol, port=nport", "            return someip.header.IPv6EndpointOption(\n                address=naddr, l4proto=someip.header.L4Protocols.UDP, port=nport")
# ---- C15
m("C15", "one collector for all destinations", "sd.py", "        queue = self.send_queues.get(remote)\n        if queue is None or queue.done:", "        queue = self.send_queues.get(None)\n        if queue is None or queue.done:")
m("C15", "expired collector reused", "sd.py", "        if queue is None or queue.done:", "        if queue is None:")
m("C15", "done flag set after the callback", "sd.py", "        self.done = True\n        self.callback(self.data, *self.args, **self.kwargs)", "        self.callback(self.data, *self.args, **self.kwargs)\n        self.done = True", "HELD")
m("C15", "collection window twice as long", "sd.py", "                self.timings.SEND_COLLECTION_TIMEOUT, self.sd.send_sd, remote=remote", "                self.timings.SEND_COLLECTION_TIMEOUT * 2, self.sd.send_sd, remote=remote")
m("C15", "stale-timer guard discards a window close that the loop runs within its clock resolution", "sd.py", "    def _handle_timeout(self) -> None:\n        self.done = True", "    def _handle_timeout(self) -> None:\n        if asyncio.get_event_loop().time() < self._handle.when():\n            return\n        self.done = True")
m("C09", "stale-timer guard discards an expiry that the loop runs within its clock resolution", "sd.py", "    def _expired(self, address: _T_SOCKADDR, entry: KT) -> None:\n", "    def _expired(self, address: _T_SOCKADDR, entry: KT) -> None:\n        if self.store.get(address, {}).get(entry, (None, None))[1] is not None and self.store[address][entry][1].when() > asyncio.get_event_loop().time():\n            return\n")
m("C15", "entries prepended", "sd.py", "        self.data.append(datum)", "        self.data.insert(0, datum)")
m("C15", "zero timeout still collected", "sd.py", "        if self.timings.SEND_COLLECTION_TIMEOUT == 0:\n            self.sd.send_sd([entry], remote=remote)\n            return\n", "")
# ---- C17
m("C17", "has_clients never cleared", "service.py", "        if not self.subscribed_endpoints:\n            self.has_clients.clear()", "        pass")
m("C17", "unsubscribe leaves the endpoint", "service.py", "        self.subscribed_endpoints.remove(endpoint)\n        if not", "        if not")
m("C17", "0x8000 bit dropped", "service.py", "                method_id=0x8000 | event_id,", "                method_id=event_id,")
m("C17", "one shared session counter", "service.py", "            _, session_id = self.service.session_storage.assign_outgoing(addr)", "            _, session_id = self.service.session_storage.assign_outgoing(None)")
m("C17", "initial notification skipped", "service.py", "        asyncio.create_task(\n            self._notify_single(endpoint, events=self.values.keys(), label=\"initial\")\n        )", "        pass")
m("C17", "two endpoints accepted", "service.py", "            if len(subscription.endpoints) != 1:", "            if len(subscription.endpoints) > 2:")
m("C17", "interface version = minor", "service.py", "                interface_version=self.service.version_major,", "                interface_version=self.service.version_minor,")
m("C17", "has_clients never set", "service.py", "        self.subscribed_endpoints.add(endpoint)\n        self.has_clients.set()", "        self.subscribed_endpoints.add(endpoint)")
# ---- C04
m("C04", "refresh loop ends after the first round", "sd.py", "                await asyncio.sleep(self.timings.SUBSCRIBE_REFRESH_INTERVAL)\n            except asyncio.CancelledError:\n                break", "                await asyncio.sleep(self.timings.SUBSCRIBE_REFRESH_INTERVAL)\n                break\n            except asyncio.CancelledError:\n                break")
m("C04", "no StopOffer on cancel", "sd.py", "        finally:\n            if self.timings.CYCLIC_OFFER_DELAY:\n                self._send_offer(stop=True)", "        finally:\n            pass")
m("C04", "discovery never told about reboots", "sd.py", "        asyncio.get_event_loop().call_soon(self.discovery.reboot_detected, addr)", "        pass")
m("C04", "D1 reverted: announcer reboot handling deferred", "sd.py", "        self.announcer.reboot_detected(addr)\n", "        asyncio.get_event_loop().call_soon(self.announcer.reboot_detected, addr)\n")
m("C04", "AutoSubscribe does not stop-subscribe (convergence unaffected)", "sd.py", "        self.subscriber.stop_subscribe_eventgroup(eventgroup, source)", "        pass", "HELD")


def run(prop, name, file, old, new, expect):
    d = tempfile.mkdtemp(prefix="pvmut.")
    try:
        shutil.copytree("/repo/src", d + "/src")
        p = f"{d}/src/someip/{file}"
        s = open(p).read()
        if s.count(old) < 1:
            return "DOES-NOT-APPLY"
        open(p, "w").write(s.replace(old, new, 1))
        out = subprocess.run(["/verif/check", prop, "--no-evidence"], env=dict(os.environ, PV_REPO=d), capture_output=True, text=True).stdout
        verdict = "VIOLATION" if "VIOLATION property=" in out else "INCONCLUSIVE" if "INCONCLUSIVE" in out else "HELD"
        mech = ""
        for line in out.splitlines():
            if "violation[0]" in line:
                mech = line.split("mechanism=")[1].split(" ")[0]
        return f"{verdict} {mech}"
    finally:
        shutil.rmtree(d, ignore_errors=True)


if __name__ == "__main__":
    want = set(a.upper() for a in sys.argv[1:])
    bad = 0
    for prop, name, file, old, new, expect in M:
        if want and prop not in want:
            continue
        r = run(prop, name, file, old, new, expect)
        ok = r.startswith(expect)
        bad += not ok
        print(f"{'ok ' if ok else 'MISS'} {prop} {name}: {r}")
    sys.exit(1 if bad else 0)
